package c13

import (
	"math"
	"strings"
	"unicode"

	"pgregory.net/rapid"

	"verif/harness/stats"
)

// weighted draws a class index with the given relative weights.  rapid's
// integer, SampledFrom and OneOf generators all favour small values and the
// ends of the range; only single bits are uniform, so the class is taken
// from 16 drawn bits.
func weighted(t *rapid.T, label string, weights ...int) int {
	total := 0
	for _, w := range weights {
		total += w
	}
	bits := rapid.SliceOfN(rapid.Bool(), 16, 16).Draw(t, label)
	v := 0
	for _, b := range bits {
		v <<= 1
		if b {
			v |= 1
		}
	}
	v = v * total >> 16
	for i, w := range weights {
		if v < w {
			return i
		}
		v -= w
	}
	return len(weights) - 1
}

var boundaryInts = []int32{
	0, 1, -1, 106, 107, 108, 109, -106, -107, -108, -109, 1130, 1131, 1132, 1133, -1130, -1131, -1132, -1133,
	32766, 32767, 32768, 32769, -32767, -32768, -32769, -32770, 65535, 65536, 1 << 24, -(1 << 24),
	math.MaxInt32 - 1, math.MaxInt32, math.MinInt32 + 1, math.MinInt32,
}

func genInt32() *rapid.Generator[int32] {
	return rapid.OneOf(
		rapid.SampledFrom(boundaryInts),
		rapid.Int32Range(-200, 200),
		rapid.Int32Range(-40000, 40000),
		rapid.Int32(),
	)
}

// genReal draws a real number for a DICT operand that has no range
// restriction (font matrix entries): zero, integers at the operand size
// boundaries, short decimals, 9-digit and 17-digit mantissas with
// exponents over the range the library documents (1e-300 .. 1e300), and -
// as a separately labelled class - magnitudes outside that range.
func genReal(extreme bool) *rapid.Generator[float64] {
	return rapid.Custom(func(t *rapid.T) float64 {
		k := weighted(t, "realKind", 1, 1, 1, 1, 1, 1, 1, 1, 1, 1, 1, 1)
		if k == 11 && !extreme {
			k = 5
		}
		switch k {
		case 0:
			return 0
		case 1:
			return float64(rapid.SampledFrom(boundaryInts).Draw(t, "int"))
		case 2:
			return rapid.SampledFrom([]float64{0.001, 1, -1, 0.0005, 0.00048828125, 0.000244140625, 1.0 / 1000, 1.0 / 2048,
				0.5, 0.25, 1e-3 + 1e-9, 0.001001, 0.00099, 1e-5, 1e-6, 1e-12, 1e-13, 0.1, 0.2, 0.3, 1.0 / 3, 2.0 / 3}).Draw(t, "common")
		case 3:
			// short decimal d.ddd * 10^e
			m := rapid.IntRange(-99999, 99999).Draw(t, "mant")
			e := rapid.IntRange(-12, 6).Draw(t, "exp")
			return float64(m) * math.Pow(10, float64(e))
		case 4, 5:
			// nine significant digits, wide exponent
			m := rapid.IntRange(100000000, 999999999).Draw(t, "mant9")
			e := rapid.IntRange(-308, 291).Draw(t, "exp")
			x := float64(m) * math.Pow(10, float64(e))
			if rapid.Bool().Draw(t, "neg") {
				x = -x
			}
			return clampDomain(x)
		case 6, 7:
			// arbitrary float64 bits within the documented magnitude window
			bits := rapid.Uint64().Draw(t, "bits")
			x := math.Float64frombits(bits)
			if math.IsNaN(x) || math.IsInf(x, 0) {
				x = 1.5
			}
			return clampDomain(x)
		case 8:
			// values whose ninth digit is followed by 5, 49999, 50001 (rounding)
			m := rapid.IntRange(100000000, 999999999).Draw(t, "mant9")
			tail := rapid.SampledFrom([]float64{0.5, 0.49999, 0.50001, 0.999999, 0.000001}).Draw(t, "tail")
			e := rapid.IntRange(-30, 20).Draw(t, "exp")
			return (float64(m) + tail) * math.Pow(10, float64(e))
		case 9:
			return rapid.SampledFrom([]float64{1e300, -1e300, 1e-300, -1e-300, 9.99999999e299, 1.00000001e-300,
				999999999.5, 99999999.95, 0.9999999995, 9.999999995e-5}).Draw(t, "edge")
		case 10:
			return float64(rapid.IntRange(-1000000, 1000000).Draw(t, "milli")) / 1000
		default:
			// outside the window: the library documents clamping on input
			return rapid.SampledFrom([]float64{1e-301, -1e-305, 1e-310, 1e-320, 5e-324, -5e-324, 2.5e-308,
				1.0000001e300, 1e301, -1e305, 1.7e308, -1.7e308}).Draw(t, "outside")
		}
	})
}

// clampDomain maps x into the magnitude window 1e-300..1e300 (keeping the
// mantissa bits) so that the unrestricted classes stay inside the domain.
func clampDomain(x float64) float64 {
	if a := math.Abs(x); a == 0 || (a >= 1e-300 && a <= 1e300) {
		return x
	}
	frac, exp := math.Frexp(x)
	return math.Ldexp(frac, exp%990)
}

func rangeTables() []*unicode.RangeTable {
	return []*unicode.RangeTable{unicode.Latin, unicode.Greek, unicode.Han, unicode.Sm}
}

func genMatrix(def [6]float64, extreme bool) *rapid.Generator[[6]float64] {
	return rapid.Custom(func(t *rapid.T) [6]float64 {
		switch weighted(t, "matrixKind", 1, 1, 1, 1, 1, 1, 1, 1) {
		case 0, 1:
			return def
		case 2:
			return [6]float64{0.001, 0, 0, 0.001, 0, 0}
		case 3:
			return [6]float64{1, 0, 0, 1, 0, 0}
		case 4:
			s := rapid.SampledFrom([]float64{0.0005, 1.0 / 2048, 1.0 / 4096, 0.002, 0.00099, 0.001001, 1e-3 + 1e-11, 0.5}).Draw(t, "scale")
			return [6]float64{s, 0, 0, s, 0, 0}
		case 5:
			// default with one entry changed
			m := def
			m[rapid.IntRange(0, 5).Draw(t, "entry")] = genReal(extreme).Draw(t, "x")
			return m
		default:
			var m [6]float64
			for i := range m {
				m[i] = genReal(extreme).Draw(t, "x")
			}
			return m
		}
	})
}

var infoStrings = []string{
	"", "", "", "Bold", "Regular", "001.000", "001.003", "Semibold", "Roman", "space", "A", "Test Font", "Copyright (c) 2025 Someone",
	"1.0", "Version 2.001;hotconv", "Ünïcödé ∑ 字", "a\tb", "(paren) <angle> [brk] {brace} /slash %pct", " lead", "trail ", "x",
}

func genInfoString() *rapid.Generator[string] {
	return rapid.OneOf(
		rapid.SampledFrom(infoStrings),
		rapid.StringMatching(`[ -~]{1,40}`),
		rapid.StringOfN(rapid.RuneFrom(nil, unicodeLetters...), 1, 12, -1),
	)
}

var unicodeLetters = rangeTables()

func genFontName() *rapid.Generator[string] {
	return rapid.Custom(func(t *rapid.T) string {
		switch weighted(t, "fontNameKind", 10, 10, 1, 1) {
		case 3:
			return "" // an INDEX object of length 0
		case 0:
			return rapid.SampledFrom([]string{"Test", "Test-Bold", "ABCDEF+Test-Italic", "X", "Font_1.2"}).Draw(t, "name")
		case 1:
			return rapid.StringMatching(`[A-Za-z][A-Za-z0-9+_.-]{0,62}`).Draw(t, "name")
		default:
			// over-long names need offSize 2 in the Name INDEX
			return strings.Repeat("N", rapid.IntRange(250, 300).Draw(t, "longName"))
		}
	})
}

func genBlues(maxPairs int) *rapid.Generator[[]int16] {
	return rapid.Custom(func(t *rapid.T) []int16 {
		pairs := rapid.IntRange(0, maxPairs).Draw(t, "pairs")
		if pairs == 0 {
			return nil
		}
		kind := weighted(t, "blueKind", 1, 1, 1, 1, 1, 1, 1, 1, 1, 1)
		lo, maxStep := -300, 250
		switch {
		case kind == 8:
			lo, maxStep = -16000, 32767/(2*pairs) // whole int16 range, spread <= 32767
		case kind == 9:
			lo, maxStep = -32768, 60000/pairs // single steps may exceed 32767 (labelled)
		}
		res := make([]int16, 0, 2*pairs)
		cur := lo + rapid.IntRange(0, maxStep).Draw(t, "first")
		for i := 0; i < 2*pairs; i++ {
			if i > 0 {
				cur += rapid.IntRange(0, maxStep).Draw(t, "step")
			}
			if cur > 32767 {
				cur = 32767
			}
			res = append(res, int16(cur))
		}
		return res
	})
}

func genPriv() *rapid.Generator[privSpec] {
	return rapid.Custom(func(t *rapid.T) privSpec {
		p := privSpec{BlueScale: 0.039625, BlueShift: 7, BlueFuzz: 1}
		if weighted(t, "plain", 1, 3) == 0 {
			return p
		}
		p.BlueValues = genBlues(7).Draw(t, "BlueValues")
		p.OtherBlues = genBlues(5).Draw(t, "OtherBlues")
		p.BlueScale = rapid.OneOf(
			rapid.SampledFrom([]float64{0.039625, 0.0375, 0.037, 0.04379, 0.5, 1, 0, 1e-5, 0.0396251, 0.03962500001, 0.039624, 0.25, 0.0454545455}),
			rapid.Float64Range(0, 1),
		).Draw(t, "BlueScale")
		p.BlueShift = rapid.OneOf(rapid.SampledFrom([]int32{7, 0, 1, 8, 6}), genInt32()).Draw(t, "BlueShift")
		p.BlueFuzz = rapid.OneOf(rapid.SampledFrom([]int32{1, 0, 2}), genInt32()).Draw(t, "BlueFuzz")
		stem := rapid.OneOf(
			rapid.SampledFrom([]float64{0, 0, 50, 80, 107, 108, 1131, 1132, 10000, 0.5, 33.3333333, 9999.99999, 1e-7}),
			rapid.Float64Range(0, 10000),
			rapid.Custom(func(t *rapid.T) float64 { return float64(rapid.IntRange(0, 10000).Draw(t, "i")) }),
		)
		p.StdHW = stem.Draw(t, "StdHW")
		p.StdVW = stem.Draw(t, "StdVW")
		p.ForceBold = rapid.Bool().Draw(t, "ForceBold")
		return p
	})
}

// sizeClass draws the number of glyphs.
func genN(cid bool) *rapid.Generator[int] {
	return rapid.Custom(func(t *rapid.T) int {
		big := 1 // about 0.3 % in quick
		if stats.Thorough() {
			big = 16 // 5 % with > 10000 glyphs
		}
		maxN := 65535
		if !cid {
			maxN = 64000 // SIDs are 16-bit: 391 standard + custom strings + info strings
		}
		switch weighted(t, "sizeClass", 20, 130, 100, 35, 12, 4, big) {
		case 0:
			return 1
		case 1:
			return rapid.IntRange(2, 20).Draw(t, "n")
		case 2:
			return rapid.IntRange(21, 300).Draw(t, "n")
		case 3:
			return rapid.IntRange(250, 262).Draw(t, "n") // around the 255/256 limits of Card8 fields
		case 4:
			return rapid.IntRange(301, 1200).Draw(t, "n")
		case 5:
			return rapid.IntRange(1201, 6000).Draw(t, "n")
		default:
			if rapid.Bool().Draw(t, "maxGlyphs") {
				return maxN
			}
			return rapid.IntRange(10001, maxN).Draw(t, "nBig")
		}
	})
}

// genSpec draws a font description.  extreme allows reals outside the
// documented 1e-300..1e300 window.
func genSpec(extreme bool) *rapid.Generator[*fontSpec] {
	return rapid.Custom(func(t *rapid.T) *fontSpec {
		s := &fontSpec{}
		s.CID = rapid.Bool().Draw(t, "cid")
		s.N = genN(s.CID).Draw(t, "N")
		s.FontName = genFontName().Draw(t, "FontName")
		s.Version = genInfoString().Draw(t, "Version")
		s.Notice = genInfoString().Draw(t, "Notice")
		s.Copyright = genInfoString().Draw(t, "Copyright")
		s.FullName = genInfoString().Draw(t, "FullName")
		s.FamilyName = genInfoString().Draw(t, "FamilyName")
		s.Weight = genInfoString().Draw(t, "Weight")
		huge := 0
		if stats.Thorough() {
			huge = 4
		}
		if s.Notice != "" {
			switch weighted(t, "noticeSize", 360, 28, 12, huge) {
			case 1:
				s.NoticeRepeat = 300/len(s.Notice) + 1 // String INDEX offSize 2
			case 2:
				s.NoticeRepeat = 70000/len(s.Notice) + 1 // offSize 3
			case 3:
				s.NoticeRepeat = (1<<24)/len(s.Notice) + 1 // offSize 4
			}
		}
		s.IsFixedPitch = rapid.Bool().Draw(t, "IsFixedPitch")
		s.ItalicAngle = rapid.OneOf(
			rapid.SampledFrom([]float64{0, 0, -12, 12, -9.5, -180, 179.999999, 0.000001, -11.3099325}),
			rapid.Float64Range(-180, 179.999),
		).Draw(t, "ItalicAngle")
		under := rapid.OneOf(
			rapid.SampledFrom([]float64{-100, 50, 0, -75, 20, 107, 108, -1131, -1132, 32767, -32768, 100000, -75.5, 49.999, 0.25, -0.75, 1e9}),
			rapid.Custom(func(t *rapid.T) float64 { return float64(rapid.IntRange(-2000, 2000).Draw(t, "i")) }),
			rapid.Float64Range(-2000, 2000),
		)
		s.UnderlinePosition = under.Draw(t, "UnderlinePosition")
		s.UnderlineThickness = under.Draw(t, "UnderlineThickness")
		topDef := [6]float64{0.001, 0, 0, 0.001, 0, 0}
		if s.CID {
			topDef = [6]float64{1, 0, 0, 1, 0, 0}
		}
		s.FontMatrix = genMatrix(topDef, extreme).Draw(t, "FontMatrix")

		nfd := 1
		if s.CID {
			s.Registry = rapid.SampledFrom([]string{"Adobe", "Adobe", "Test", "space", "R", ""}).Draw(t, "Registry")
			s.Ordering = rapid.SampledFrom([]string{"Identity", "Japan1", "GB1", "Adobe", "Bold", "O", ""}).Draw(t, "Ordering")
			s.Supplement = rapid.OneOf(rapid.Int32Range(0, 7), genInt32()).Draw(t, "Supplement")
			s.CIDMode = weighted(t, "CIDMode", 1, 1, 1, 1, 1, 1)
			s.CIDSeed = rapid.Uint64().Draw(t, "CIDSeed")
			many := 1
			if stats.Thorough() {
				many = 3
			}
			switch weighted(t, "fdClass", 25, 45, 24, 3, many) {
			case 0:
				nfd = 1
			case 1:
				nfd = rapid.IntRange(2, 5).Draw(t, "nfd")
			case 2:
				nfd = rapid.IntRange(6, 40).Draw(t, "nfd")
			case 3:
				nfd = rapid.IntRange(41, 254).Draw(t, "nfd")
			default:
				nfd = rapid.IntRange(255, 256).Draw(t, "nfd")
			}
			s.FDMode = weighted(t, "FDMode", 1, 2, 2, 1, 1)
			s.FDSeed = rapid.Uint64().Draw(t, "FDSeed")
			s.FDRuns = rapid.IntRange(1, 40).Draw(t, "FDRuns")
			// many ranges in a range-encoded FDSelect: the range count is a
			// Card16 (256+ ranges need its high byte), and format 3 stays the
			// shorter one only while runs average more than three glyphs
			if nfd >= 2 && weighted(t, "manyFDRanges", 11, 1) == 1 {
				if s.N < 800 {
					s.N = rapid.IntRange(800, 3000).Draw(t, "NManyRanges")
				}
				s.FDMode = fdRuns
				s.FDRuns = rapid.IntRange(256, s.N/3-4).Draw(t, "FDRunsMany")
			}
		} else {
			s.NameMode = weighted(t, "NameMode", 2, 1, 1, 1, 2, 2, 3, 1)
			s.NameSeed = rapid.Uint64().Draw(t, "NameSeed")
			s.EncMode = weighted(t, "EncMode", 2, 2, 1, 2, 2, 3, 3, 3)
			s.EncSeed = rapid.Uint64().Draw(t, "EncSeed")
			maxEnc := s.N - 1
			if maxEnc > 256 {
				maxEnc = 256
			}
			s.EncCount = rapid.OneOf(rapid.IntRange(0, maxEnc), rapid.Just(maxEnc), rapid.IntRange(0, min(maxEnc, 12))).Draw(t, "EncCount")
			s.EncSupps = rapid.OneOf(rapid.Just(0), rapid.IntRange(1, 4), rapid.IntRange(0, 255)).Draw(t, "EncSupps")
		}
		// private dictionaries: mostly a few distinct ones reused
		distinct := rapid.IntRange(1, min(nfd, 4)).Draw(t, "distinctPrivs")
		pool := make([]privSpec, distinct)
		for i := range pool {
			pool[i] = genPriv().Draw(t, "priv")
		}
		fmDef := [6]float64{0.001, 0, 0, 0.001, 0, 0}
		mpool := make([][6]float64, distinct)
		for i := range mpool {
			mpool[i] = genMatrix(fmDef, extreme).Draw(t, "fdMatrix")
		}
		for i := 0; i < nfd; i++ {
			s.Privs = append(s.Privs, pool[i%distinct])
			if s.CID {
				s.FontMatrices = append(s.FontMatrices, mpool[(i/2)%distinct])
			}
		}

		s.WidthMode = weighted(t, "WidthMode", 1, 2, 2, 2, 2, 1, 2, 1, 1)
		s.WidthSeed = rapid.Uint64().Draw(t, "WidthSeed")
		s.WidthBase = rapid.OneOf(
			rapid.SampledFrom([]float64{0, 500, 600, 1000, 250.5, 333.333, 999.99998474121094, 0.0000152587890625}),
			rapid.Custom(func(t *rapid.T) float64 { return float64(rapid.IntRange(0, 2000).Draw(t, "i")) }),
			rapid.Custom(func(t *rapid.T) float64 { return float64(rapid.IntRange(0, 1000*65536-1).Draw(t, "f")) / 65536 }),
		).Draw(t, "WidthBase")
		s.PathSeed = rapid.Uint64().Draw(t, "PathSeed")
		s.PathPct = rapid.SampledFrom([]int{0, 0, 30, 100}).Draw(t, "PathPct")
		return s
	})
}
