// C13: CFF structures and numbers survive write/read; every format choice
// is transparent to cff.Read.
package c13

import (
	"bytes"
	"encoding/json"
	"fmt"
	"math"
	"os"
	"sort"
	"strings"
	"testing"

	"pgregory.net/rapid"

	"seehuhn.de/go/sfnt/cff"
	"seehuhn.de/go/sfnt/glyph"

	"verif/harness/guard"
	ref "verif/harness/ref/refcffwalk"
	"verif/harness/stats"
)

func TestMain(m *testing.M) { stats.MainExit(m) }

// ---------------------------------------------------------------------
// expectations

// windowed is the value the library documents for a real read from a
// DICT: magnitudes below 1e-300 become 0, magnitudes above 1e300 become
// +-1e300 (cff/dict.go decodeFloat).  Inside the window it is the identity.
func windowed(x float64) float64 {
	switch {
	case x > 1e300:
		return 1e300
	case x < -1e300:
		return -1e300
	case x > -1e-300 && x < 1e-300:
		return 0
	}
	return x
}

func outsideWindow(x float64) bool { return windowed(x) != x }

// readReal: a real that went through a DICT and cff.Read.
func readReal(want, got float64) bool { return ref.Close9(windowed(want), got) }

// fileReal: a real as found in the file by the walker.  Outside the window
// the file may hold the value itself or its windowed form.
func fileReal(want, got float64) bool {
	return ref.Close9(want, got) || (outsideWindow(want) && ref.Close9(windowed(want), got))
}

func nearMatrix(m [6]float64, def ref.Matrix, tol float64) bool {
	for i := range m {
		if math.Abs(m[i]-def[i]) > tol {
			return false
		}
	}
	return true
}

// snapTol is the absolute tolerance within which the library's writer treats
// a font matrix as "the default" and omits it (cff/dict.go setFontMatrix after
// the lead's repair).  Carved out: such a matrix may come back as the default.
const snapTol = 1e-12

type cmp struct {
	msg    string
	labels map[string]bool
}

func (c *cmp) fail(format string, a ...any) {
	if c.msg == "" {
		c.msg = fmt.Sprintf(format, a...)
	}
}

func (c *cmp) label(l string) {
	if c.labels == nil {
		c.labels = map[string]bool{}
	}
	c.labels[l] = true
}

func (c *cmp) matrix(what string, want [6]float64, got [6]float64, def ref.Matrix, allowSnap bool) {
	if allowSnap && nearMatrix(want, def, snapTol) && want != [6]float64(def) && got == [6]float64(def) {
		c.label("matrix-snapped-to-default")
		return
	}
	for i := range want {
		if !readReal(want[i], got[i]) {
			c.fail("%s[%d]: want %v, got %v (matrix %v -> %v)", what, i, windowed(want[i]), got[i], want, got)
			return
		}
	}
}

// compareRead compares the font returned by cff.Read with the spec, field
// by field.  fromLibrary says that the bytes were written by (*cff.Font).Write
// (then matrices within snapTol of the default may come back as the default).
func compareRead(s *fontSpec, e *expanded, g *cff.Font, fromLibrary bool) (string, map[string]bool) {
	c := &cmp{}
	if g == nil || g.FontInfo == nil || g.Outlines == nil {
		return "nil font", nil
	}
	str := func(what, want, got string) {
		if want != got {
			c.fail("%s: want %q, got %q", what, clip(want), clip(got))
		}
	}
	num := func(what string, want, got float64) {
		if !readReal(want, got) {
			c.fail("%s: want %v, got %v", what, want, got)
		}
	}
	fi := g.FontInfo
	str("FontName", s.FontName, fi.FontName)
	str("Version", s.Version, fi.Version)
	str("Notice", e.notice, fi.Notice)
	str("Copyright", s.Copyright, fi.Copyright)
	str("FullName", s.FullName, fi.FullName)
	str("FamilyName", s.FamilyName, fi.FamilyName)
	str("Weight", s.Weight, fi.Weight)
	if fi.IsFixedPitch != s.IsFixedPitch {
		c.fail("IsFixedPitch: want %v, got %v", s.IsFixedPitch, fi.IsFixedPitch)
	}
	num("ItalicAngle", s.ItalicAngle, fi.ItalicAngle)
	num("UnderlinePosition", s.UnderlinePosition, float64(fi.UnderlinePosition))
	num("UnderlineThickness", s.UnderlineThickness, float64(fi.UnderlineThickness))
	topDef := defaultMatrix
	if s.CID {
		topDef = identityMatrix
	}
	c.matrix("FontInfo.FontMatrix", s.FontMatrix, [6]float64(fi.FontMatrix), topDef, fromLibrary)

	o := g.Outlines
	if len(o.Glyphs) != s.N {
		c.fail("number of glyphs: want %d, got %d", s.N, len(o.Glyphs))
		return c.msg, c.labels
	}
	if len(o.Private) != len(s.Privs) {
		c.fail("number of private dicts: want %d, got %d", len(s.Privs), len(o.Private))
		return c.msg, c.labels
	}
	for i, p := range s.Privs {
		q := o.Private[i]
		w := fmt.Sprintf("Private[%d].", i)
		if q == nil {
			c.fail("%snil", w)
			break
		}
		blues := func(what string, want []int16, got []int16) {
			if len(want) != len(got) {
				c.fail("%s%s: want %v, got %v", w, what, want, got)
				return
			}
			for k := range want {
				if want[k] != got[k] {
					c.fail("%s%s: want %v, got %v", w, what, want, got)
					return
				}
			}
		}
		gb := make([]int16, len(q.BlueValues))
		for k, v := range q.BlueValues {
			gb[k] = int16(v)
		}
		blues("BlueValues", p.BlueValues, gb)
		gb = make([]int16, len(q.OtherBlues))
		for k, v := range q.OtherBlues {
			gb[k] = int16(v)
		}
		blues("OtherBlues", p.OtherBlues, gb)
		num(w+"BlueScale", p.BlueScale, q.BlueScale)
		if q.BlueShift != p.BlueShift {
			c.fail("%sBlueShift: want %d, got %d", w, p.BlueShift, q.BlueShift)
		}
		if q.BlueFuzz != p.BlueFuzz {
			c.fail("%sBlueFuzz: want %d, got %d", w, p.BlueFuzz, q.BlueFuzz)
		}
		num(w+"StdHW", p.StdHW, q.StdHW)
		num(w+"StdVW", p.StdVW, q.StdVW)
		if q.ForceBold != p.ForceBold {
			c.fail("%sForceBold: want %v, got %v", w, p.ForceBold, q.ForceBold)
		}
	}
	if s.CID {
		if o.ROS == nil {
			c.fail("ROS: nil for a CID-keyed font")
			return c.msg, c.labels
		}
		str("ROS.Registry", s.Registry, o.ROS.Registry)
		str("ROS.Ordering", s.Ordering, o.ROS.Ordering)
		if o.ROS.Supplement != s.Supplement {
			c.fail("ROS.Supplement: want %d, got %d", s.Supplement, o.ROS.Supplement)
		}
		if o.Encoding != nil {
			c.fail("Encoding: non-nil for a CID-keyed font")
		}
		if len(o.GIDToCID) != s.N {
			c.fail("GIDToCID: want %d entries, got %d", s.N, len(o.GIDToCID))
			return c.msg, c.labels
		}
		for gid, want := range e.cids {
			if int(o.GIDToCID[gid]) != want {
				c.fail("GIDToCID[%d]: want %d, got %d", gid, want, o.GIDToCID[gid])
				break
			}
		}
		if len(o.FontMatrices) != len(s.FontMatrices) {
			c.fail("FontMatrices: want %d, got %d", len(s.FontMatrices), len(o.FontMatrices))
			return c.msg, c.labels
		}
		for i, m := range s.FontMatrices {
			c.matrix(fmt.Sprintf("FontMatrices[%d]", i), m, [6]float64(o.FontMatrices[i]), defaultMatrix, fromLibrary)
		}
		if o.FDSelect == nil {
			c.fail("FDSelect: nil")
			return c.msg, c.labels
		}
		for gid, want := range e.fdsel {
			if got := o.FDSelect(glyph.ID(gid)); got != want {
				c.fail("FDSelect(%d): want %d, got %d", gid, want, got)
				break
			}
		}
		// the assignment is a function of the glyph, whatever was asked
		// before: descending, then hopping between the ends, the middle and
		// positions spread by a fixed stride
		if n := len(e.fdsel); n > 0 && c.msg == "" {
			order := make([]int, 0, 3*n+8)
			for gid := n - 1; gid >= 0; gid-- {
				order = append(order, gid)
			}
			order = append(order, n-1, 0, n-1, n/2, 0, n/3, n-1, 0)
			stride := 7919 % n
			if stride == 0 {
				stride = 1
			}
			for k, gid := 0, n/2; k < 2*n && k < 4000; k++ {
				order = append(order, gid)
				if k%3 == 2 {
					order = append(order, 0)
				}
				gid = (gid + stride) % n
			}
			for k, gid := range order {
				if got := o.FDSelect(glyph.ID(gid)); got != e.fdsel[gid] {
					prev := -1
					if k > 0 {
						prev = order[k-1]
					}
					c.fail("FDSelect(%d) asked after FDSelect(%d): want %d, got %d", gid, prev, e.fdsel[gid], got)
					break
				}
			}
		}
	} else {
		if o.ROS != nil || o.GIDToCID != nil || o.FontMatrices != nil {
			c.fail("name-keyed font read back with ROS=%v GIDToCID=%d FontMatrices=%d", o.ROS, len(o.GIDToCID), len(o.FontMatrices))
		}
		want := e.enc
		if want == nil {
			v := ref.PredefinedEncoding(0, e.names)
			want = v[:]
		}
		if len(o.Encoding) != 256 {
			c.fail("Encoding: %d entries", len(o.Encoding))
		} else {
			for code := range want {
				if int(o.Encoding[code]) != want[code] {
					c.fail("Encoding[%d]: want GID %d, got GID %d", code, want[code], o.Encoding[code])
					break
				}
			}
		}
		if o.FDSelect != nil {
			for _, gid := range []int{0, s.N - 1} {
				if fd := o.FDSelect(glyph.ID(gid)); fd != 0 {
					c.fail("FDSelect(%d) = %d for a name-keyed font", gid, fd)
				}
			}
		}
	}
	for gid, gg := range o.Glyphs {
		if gg == nil {
			c.fail("glyph %d: nil", gid)
			break
		}
		if !s.CID && gg.Name != e.names[gid] {
			c.fail("name of glyph %d: want %q, got %q", gid, e.names[gid], gg.Name)
			break
		}
		if d := gg.Width - e.widths[gid]; math.Abs(d) > ref.WidthTol || math.IsNaN(d) {
			c.fail("width of glyph %d: want %v, got %v (diff %g, more than 2^-16)", gid, e.widths[gid], gg.Width, d)
			break
		}
		pts := e.paths[gid]
		if len(gg.Cmds) != len(pts) || len(gg.HStem) != 0 || len(gg.VStem) != 0 {
			c.fail("glyph %d: want %d path commands and no stems, got %v / %v / %v", gid, len(pts), gg.Cmds, gg.HStem, gg.VStem)
			break
		}
		for k, p := range pts {
			wantOp := cff.OpLineTo
			if k == 0 {
				wantOp = cff.OpMoveTo
			}
			cm := gg.Cmds[k]
			if cm.Op != wantOp || len(cm.Args) != 2 || cm.Args[0] != p[0] || cm.Args[1] != p[1] {
				c.fail("glyph %d command %d: want %v %v, got %v", gid, k, wantOp, p, cm)
				break
			}
		}
		if c.msg != "" {
			break
		}
	}
	return c.msg, c.labels
}

func clip(s string) string {
	if len(s) > 80 {
		return fmt.Sprintf("%s...(%d bytes)", s[:80], len(s))
	}
	return s
}

// ---------------------------------------------------------------------
// running the library

func writeFont(s *fontSpec, f *cff.Font) ([]byte, error) {
	var buf bytes.Buffer
	var err error
	var pn *guard.Panic
	guard.Watch("c13-write", []byte(s.JSON()), guard.HangLimit(s.N*32), func() {
		pn = guard.Try(func() { err = f.Write(&buf) })
	})
	if pn != nil {
		return nil, fmt.Errorf("(*cff.Font).Write: %s", pn)
	}
	if err != nil {
		return nil, fmt.Errorf("(*cff.Font).Write: %v", err)
	}
	return buf.Bytes(), nil
}

func readFont(s *fontSpec, data []byte) (*cff.Font, error) {
	var g *cff.Font
	var err error
	var pn *guard.Panic
	guard.Watch("c13-read", []byte(s.JSON()), guard.HangLimit(len(data)), func() {
		pn = guard.Try(func() { g, err = cff.Read(guard.Source(data)) })
	})
	if pn != nil {
		return nil, fmt.Errorf("cff.Read: %s", pn)
	}
	if err != nil {
		return nil, fmt.Errorf("cff.Read: %v", err)
	}
	return g, nil
}

func dump(name string, data []byte) string {
	if p := stats.SaveReplay(name, data); p != "" {
		return p
	}
	if len(data) <= 160 {
		return fmt.Sprintf("%x", data)
	}
	return fmt.Sprintf("%x...(%d bytes)", data[:160], len(data))
}

func sizeLabel(n int) string {
	switch {
	case n == 1:
		return "glyphs=1"
	case n <= 20:
		return "glyphs=2-20"
	case n <= 300:
		return "glyphs=21-300"
	case n <= 6000:
		return "glyphs=301-6000"
	case n <= 10000:
		return "glyphs=6001-10000"
	case n < 64000:
		return "glyphs>10000"
	}
	return "glyphs>=64000"
}

func (s *fontSpec) labels(e *expanded) []string {
	var ls []string
	add := func(l string) { ls = append(ls, l) }
	add(sizeLabel(s.N))
	if s.CID {
		add("cid-keyed")
		switch n := len(s.Privs); {
		case n == 1:
			add("fds=1")
		case n <= 5:
			add("fds=2-5")
		case n <= 40:
			add("fds=6-40")
		case n < 255:
			add("fds=41-254")
		default:
			add("fds=255-256")
		}
		nr := 0
		for i, fd := range e.fdsel {
			if i == 0 || fd != e.fdsel[i-1] {
				nr++
			}
		}
		switch {
		case nr >= 256 && 3*nr+5 < s.N+1:
			add("fd-ranges>=256-and-range-format-shorter")
		case nr >= 256:
			add("fd-ranges>=256")
		case nr >= 2:
			add("fd-ranges=2-255")
		}
	} else {
		add("name-keyed")
	}
	fracW := false
	for _, w := range e.widths {
		if w != math.Trunc(w) {
			fracW = true
			break
		}
	}
	if fracW {
		add("fractional-widths")
	}
	outside := false
	chk := func(m [6]float64) {
		for _, x := range m {
			if outsideWindow(x) {
				outside = true
			}
		}
	}
	chk(s.FontMatrix)
	for _, m := range s.FontMatrices {
		chk(m)
	}
	if outside {
		add("real-outside-1e+-300")
	}
	if s.UnderlinePosition != math.Trunc(s.UnderlinePosition) || s.UnderlineThickness != math.Trunc(s.UnderlineThickness) {
		add("fractional-underline")
	}
	for _, p := range s.Privs {
		for _, b := range [][]int16{p.BlueValues, p.OtherBlues} {
			if len(b) > 0 && int(b[len(b)-1])-int(b[0]) > 32767 {
				add("blues-spread>32767")
			}
		}
	}
	sort.Strings(ls)
	return dedup(ls)
}

func dedup(ls []string) []string {
	var out []string
	for i, l := range ls {
		if i == 0 || l != ls[i-1] {
			out = append(out, l)
		}
	}
	return out
}

func layoutLabels(lay *ref.Layout) (labels []string, bigOff bool) {
	add := func(l string) { labels = append(labels, l) }
	add(fmt.Sprintf("charset-format=%d", lay.CharsetFormat))
	if lay.EncodingFormat >= 0 {
		add(fmt.Sprintf("encoding-format=%d", lay.EncodingFormat))
		if lay.EncodingSupps > 0 {
			add("encoding-supplement")
		}
	}
	if lay.FDSelectFormat >= 0 {
		add(fmt.Sprintf("fdselect-format=%d", lay.FDSelectFormat))
	}
	names := make([]string, 0, len(lay.OffSize))
	for n := range lay.OffSize {
		names = append(names, n)
	}
	sort.Strings(names)
	seen := map[string]bool{}
	for _, n := range names {
		sz := lay.OffSize[n]
		if sz >= 2 {
			bigOff = true
		}
		base := n
		if i := strings.IndexByte(n, '['); i >= 0 {
			base = n[:i]
		}
		l := fmt.Sprintf("offSize(%s)=%d", base, sz)
		if !seen[l] && sz > 0 {
			seen[l] = true
			add(l)
		}
	}
	for _, l := range []int{1, 2, 3, 5} {
		if lay.IntForms[l] > 0 {
			add(fmt.Sprintf("dict-int-%dbyte", l))
		}
	}
	if lay.Reals > 0 {
		add("dict-real")
	}
	if lay.NonMinimalInts > 0 {
		add("dict-int-nonminimal")
	}
	add(fmt.Sprintf("header-offSize=%d", lay.HdrOffSize))
	return labels, bigOff
}

// nontrivial implements the NT rule of DESIGN.md section 4, C13.
func nontrivial(s *fontSpec, e *expanded, lay *ref.Layout, bigOff bool) bool {
	if s.CID && len(s.Privs) >= 2 {
		return true
	}
	if lay.EncodingSupps > 0 || bigOff || lay.Reals > 0 {
		return true
	}
	for _, w := range e.widths {
		if w != math.Trunc(w) {
			return true
		}
	}
	return false
}

// normaliseWalked fills in the matrices the file leaves to defaults so that
// the walker's result can be compared with the explicit matrices of the
// expectation.  It returns an error text if a matrix was omitted although it
// is not (within snapTol) the default.
func normaliseWalked(s *fontSpec, want, got *ref.Font) string {
	topDef := defaultMatrix
	if s.CID {
		// convention of the library: a CID-keyed Top DICT without FontMatrix
		// means the identity (the Font DICTs carry the scale)
		topDef = identityMatrix
	}
	if got.Top.FontMatrix == nil {
		if !nearMatrix(s.FontMatrix, topDef, snapTol) {
			return fmt.Sprintf("Top DICT has no FontMatrix although the font matrix %v is not the default %v", s.FontMatrix, topDef)
		}
		want.Top.FontMatrix = nil
	}
	if s.CID {
		for i := range got.FDs {
			if got.FDs[i].FontMatrix == nil {
				if !nearMatrix(s.FontMatrices[i], defaultMatrix, snapTol) {
					return fmt.Sprintf("Font DICT %d has no FontMatrix although the matrix %v is not the default", i, s.FontMatrices[i])
				}
				want.FDs[i].FontMatrix = nil
			}
		}
	}
	return ""
}

// roundTrip is one case of the write/read direction.
func roundTrip(s *fontSpec) (err error, labels []string, nt bool, fp uint64) {
	e := s.expand()
	f := s.build(e)
	data, werr := writeFont(s, f)
	if werr != nil {
		return werr, nil, false, 0
	}
	fail := func(format string, a ...any) error {
		return fmt.Errorf("%s\n  bytes: %s", fmt.Sprintf(format, a...), dump("c13-roundtrip-last-failure.cff", data))
	}

	// (1) the harness's own walker accepts the file and finds the input in it
	parsed, perr := ref.Parse(data)
	if perr != nil {
		return fail("written file is not well-formed CFF: %v", perr), nil, false, 0
	}
	lay := &parsed.Layout
	if lay.Gaps != 0 {
		return fail("written file has %d bytes that belong to no structure; extents %v", lay.Gaps, lay.Extents), nil, false, 0
	}
	if len(data) > 1<<(8*lay.HdrOffSize) && lay.HdrOffSize < 4 {
		return fail("header offSize %d cannot hold offsets into a file of %d bytes", lay.HdrOffSize, len(data)), nil, false, 0
	}
	want := s.logical(e)
	if msg := normaliseWalked(s, want, parsed.Font); msg != "" {
		return fail("%s", msg), nil, false, 0
	}
	if msg := ref.Diff(want, parsed.Font, ref.DiffOptions{RealEq: fileReal}); msg != "" {
		return fail("content of the written file (read by the reference walker) differs from the font: %s", msg), nil, false, 0
	}

	// (2) cff.Read returns the font
	g, rerr := readFont(s, data)
	if rerr != nil {
		return fail("%v", rerr), nil, false, 0
	}
	msg, cl := compareRead(s, e, g, true)
	if msg != "" {
		return fail("Read(Write(font)) differs from font: %s", msg), nil, false, 0
	}

	labels = s.labels(e)
	ll, bigOff := layoutLabels(lay)
	labels = append(labels, ll...)
	for l := range cl {
		labels = append(labels, l)
	}
	sort.Strings(labels)
	return nil, labels, nontrivial(s, e, lay, bigOff), stats.Hash(data)
}

func TestC13RoundTrip(t *testing.T) {
	rapid.Check(t, func(t *rapid.T) {
		s := genSpec(true).Draw(t, "font")
		err, labels, nt, fp := roundTrip(s)
		if err != nil {
			t.Fatalf("%v\n  font: %s", err, clipJSON(s))
		}
		stats.CaseIn("roundtrip", fp, nt, func() string { return clipJSON(s) }, labels...)
	})
}

func clipJSON(s *fontSpec) string {
	c := *s
	if len(c.Privs) > 6 {
		c.Privs = c.Privs[:6]
	}
	if len(c.FontMatrices) > 6 {
		c.FontMatrices = c.FontMatrices[:6]
	}
	js := c.JSON()
	if len(s.Privs) > 6 {
		js += fmt.Sprintf(" (Privs/FontMatrices clipped from %d; complete case in the rapid fail file)", len(s.Privs))
	}
	return js
}

// TestReplayHang re-runs one font description (JSON, from the watchdog's
// in-flight file or a saved replay) through both directions.
func TestReplayHang(t *testing.T) {
	path := os.Getenv("VERIF_REPLAY_FILE")
	if path == "" {
		t.Skip("no VERIF_REPLAY_FILE")
	}
	raw, err := os.ReadFile(path)
	if err != nil {
		t.Fatal(err)
	}
	s := &fontSpec{}
	if err := json.Unmarshal(raw, s); err != nil {
		t.Fatalf("replay file is not a font description: %v", err)
	}
	if err, _, _, _ := roundTrip(s); err != nil {
		t.Fatalf("%v\n  font: %s", err, clipJSON(s))
	}
}
