package c13

import (
	"bytes"
	"fmt"
	"testing"

	"pgregory.net/rapid"

	"seehuhn.de/go/postscript/cid"
	"seehuhn.de/go/postscript/type1"
	"seehuhn.de/go/sfnt/cff"
	"seehuhn.de/go/sfnt/glyph"

	"verif/harness/guard"
	"verif/harness/stats"
)

// Fonts that the CFF format cannot hold (more than 65535 glyphs, CIDs or
// SIDs beyond 16 bits, FD indices beyond 8 bits or beyond the Private
// array).  The property keeps these outside its domain; the sub-check only
// demands that such input is never corrupted silently: Write refuses it
// (error or explicit panic), or the file it writes reads back as the input.

const (
	limTooManyGlyphs = iota
	limCIDTooLarge
	limTooManyStrings
	limFDIndexTooLarge
	limTooManyPrivate
	numLimKinds
)

var limNames = []string{"glyphs>65535", "cid>65535", "sid>65535", "fd-index-out-of-range", "private-dicts>256"}

type limitCase struct {
	Kind  int
	N     int // glyphs
	Where int // position of the offending element
	Value int // offending value
}

func genLimitCase() *rapid.Generator[*limitCase] {
	return rapid.Custom(func(t *rapid.T) *limitCase {
		c := &limitCase{Kind: weighted(t, "kind", 1, 3, 1, 3, 2)}
		switch c.Kind {
		case limTooManyGlyphs:
			c.N = rapid.SampledFrom([]int{65536, 65537, 65540, 70000, 131072}).Draw(t, "n")
		case limCIDTooLarge:
			c.N = rapid.IntRange(2, 40).Draw(t, "n")
			c.Where = rapid.IntRange(1, c.N-1).Draw(t, "where")
			c.Value = rapid.SampledFrom([]int{65536, 65537, 65536 + 500, 1 << 20, 1<<32 - 1}).Draw(t, "cid")
		case limTooManyStrings:
			c.N = rapid.SampledFrom([]int{65147, 65300, 65535}).Draw(t, "n")
		case limFDIndexTooLarge:
			c.N = rapid.IntRange(1, 300).Draw(t, "n")
			c.Where = rapid.IntRange(0, c.N-1).Draw(t, "where")
			c.Value = rapid.SampledFrom([]int{2, 3, 255, 256, 257, 258, -1}).Draw(t, "fd") // the font has 2 private dicts
		case limTooManyPrivate:
			c.N = rapid.IntRange(1, 600).Draw(t, "n")
			c.Value = rapid.SampledFrom([]int{257, 258, 300, 512}).Draw(t, "nPrivate")
		}
		return c
	})
}

func (c *limitCase) build() *cff.Font {
	info := &type1.FontInfo{FontName: "Limits", FontMatrix: [6]float64{0.001, 0, 0, 0.001, 0, 0}}
	o := &cff.Outlines{}
	isCID := c.Kind != limTooManyStrings && !(c.Kind == limTooManyGlyphs && c.N%2 == 0)
	for i := 0; i < c.N; i++ {
		name := ""
		if !isCID {
			name = fmt.Sprintf("custom%d", i)
			if i == 0 {
				name = ".notdef"
			}
		}
		o.Glyphs = append(o.Glyphs, cff.NewGlyph(name, float64(100+i%900)))
	}
	priv := func() *type1.PrivateDict {
		return &type1.PrivateDict{BlueScale: 0.039625, BlueShift: 7, BlueFuzz: 1}
	}
	if !isCID {
		o.Private = []*type1.PrivateDict{priv()}
		o.FDSelect = func(glyph.ID) int { return 0 }
		return &cff.Font{FontInfo: info, Outlines: o}
	}
	info.FontMatrix = [6]float64{1, 0, 0, 1, 0, 0}
	o.ROS = &cid.SystemInfo{Registry: "Adobe", Ordering: "Identity"}
	o.GIDToCID = make([]cid.CID, c.N)
	for i := range o.GIDToCID {
		o.GIDToCID[i] = cid.CID(i)
	}
	nPriv := 2
	sel := make([]int, c.N)
	switch c.Kind {
	case limCIDTooLarge:
		for i := c.Where; i < c.N; i++ {
			o.GIDToCID[i] = cid.CID(c.Value + i - c.Where)
		}
	case limFDIndexTooLarge:
		sel[c.Where] = c.Value
	case limTooManyPrivate:
		nPriv = c.Value
		for i := range sel {
			sel[i] = (i * 7) % nPriv
		}
		if c.N > 0 {
			sel[c.N-1] = nPriv - 1
		}
	}
	for i := 0; i < nPriv; i++ {
		p := priv()
		p.BlueFuzz = int32(i) // make the dictionaries distinguishable
		o.Private = append(o.Private, p)
		o.FontMatrices = append(o.FontMatrices, [6]float64{0.001, 0, 0, 0.001, 0, 0})
	}
	o.FDSelect = func(gid glyph.ID) int { return sel[gid] }
	return &cff.Font{FontInfo: info, Outlines: o}
}

// same compares what the sub-check cares about: glyph count, names, CIDs,
// FD assignment and the private dictionaries reached through it.
func sameIdentity(f, g *cff.Font) string {
	if len(f.Glyphs) != len(g.Glyphs) {
		return fmt.Sprintf("%d glyphs written, %d read", len(f.Glyphs), len(g.Glyphs))
	}
	if len(f.Private) != len(g.Private) {
		return fmt.Sprintf("%d private dicts written, %d read", len(f.Private), len(g.Private))
	}
	for gid := range f.Glyphs {
		if f.Glyphs[gid].Name != g.Glyphs[gid].Name {
			return fmt.Sprintf("glyph %d: name %q read as %q", gid, f.Glyphs[gid].Name, g.Glyphs[gid].Name)
		}
		if f.Glyphs[gid].Width != g.Glyphs[gid].Width {
			return fmt.Sprintf("glyph %d: width %v read as %v", gid, f.Glyphs[gid].Width, g.Glyphs[gid].Width)
		}
		if f.ROS != nil {
			if len(g.GIDToCID) != len(f.GIDToCID) || f.GIDToCID[gid] != g.GIDToCID[gid] {
				return fmt.Sprintf("glyph %d: CID %d read back differently (%d entries read)", gid, f.GIDToCID[gid], len(g.GIDToCID))
			}
			a, b := f.FDSelect(glyph.ID(gid)), g.FDSelect(glyph.ID(gid))
			if a != b {
				return fmt.Sprintf("glyph %d: FDSelect %d read as %d", gid, a, b)
			}
			if f.Private[a].BlueFuzz != g.Private[b].BlueFuzz {
				return fmt.Sprintf("glyph %d: private dict %d read with BlueFuzz %d", gid, a, g.Private[b].BlueFuzz)
			}
		}
	}
	return ""
}

func runLimit(c *limitCase) (outcome string, err error) {
	f := c.build()
	var buf bytes.Buffer
	var werr error
	pn := guard.Try(func() { werr = f.Write(&buf) })
	switch {
	case pn != nil && pn.Class != "index" && pn.Class != "slice" && pn.Class != "nil" && pn.Class != "runtime":
		return "refused-by-explicit-panic", nil
	case pn != nil:
		// not graceful, but not silent either: counted, reported in the notes
		return "refused-by-runtime-panic:" + pn.Site, nil
	case werr != nil:
		return "refused-by-error", nil
	}
	var g *cff.Font
	var rerr error
	pn = guard.Try(func() { g, rerr = cff.Read(bytes.NewReader(buf.Bytes())) })
	if pn != nil {
		return "", fmt.Errorf("Write accepted the font, cff.Read of its output: %s", pn)
	}
	if rerr != nil {
		return "", fmt.Errorf("Write accepted the font without error but its output is unreadable: %v", rerr)
	}
	var msg string
	if pn = guard.Try(func() { msg = sameIdentity(f, g) }); pn != nil {
		return "", fmt.Errorf("Write accepted the font, comparison of the re-read font: %s", pn)
	}
	if msg != "" {
		return "", fmt.Errorf("Write accepted the font without error and silently changed it: %s", msg)
	}
	return "round-trips", nil
}

func TestC13Unrepresentable(t *testing.T) {
	rapid.Check(t, func(t *rapid.T) {
		c := genLimitCase().Draw(t, "case")
		outcome, err := runLimit(c)
		if err != nil {
			t.Fatalf("unrepresentable font (%s) %+v: %v", limNames[c.Kind], *c, err)
		}
		stats.CaseIn("unrepresentable", stats.Hash(c.Kind, c.N, c.Where, c.Value), true,
			func() string { return fmt.Sprintf("%s %+v -> %s", limNames[c.Kind], *c, outcome) },
			limNames[c.Kind], outcome)
	})
}
