package c13

import (
	"bytes"
	"fmt"
	"reflect"
	"testing"

	"pgregory.net/rapid"

	"seehuhn.de/go/postscript/cid"
	"seehuhn.de/go/postscript/funit"
	"seehuhn.de/go/postscript/type1"
	"seehuhn.de/go/sfnt/cff"
	"seehuhn.de/go/sfnt/glyph"
	"verif/harness/guard"
	"verif/harness/stats"
)

// TestC13PrivateSizeSweep writes one CID-keyed font with k private
// dictionaries again and again while the dictionaries grow byte by byte
// (blue-zone pairs of one-byte deltas, a BlueShift value of the next integer
// size class), so that the total size of the Private DICTs - and with it the
// offsets stored in the Font DICTs, the Subrs operands and the Top DICT
// entries in front - passes through the size classes of DICT integers (107 |
// 108, 1131 | 1132, 32767 | 32768) at every relative position.  The writer
// settles these mutually dependent offsets in a fixed-point iteration; each
// file must read back with every private dictionary and the FD assignment
// intact.
func TestC13PrivateSizeSweep(t *testing.T) {
	rapid.Check(t, func(t *rapid.T) {
		k := rapid.OneOf(rapid.IntRange(2, 12), rapid.IntRange(13, 60), rapid.SampledFrom([]int{34, 35, 100, 256})).Draw(t, "numPrivate")
		nGlyphs := max(k, rapid.SampledFrom([]int{1, k, 3 * k, 80}).Draw(t, "numGlyphs"))
		notice := rapid.SampledFrom([]int{0, 0, 7, 60, 120}).Draw(t, "noticeLen")
		// the whole range of paddings the dictionaries can take (17 bytes
		// each), at most 700 steps from a drawn start
		steps := min(17*k, 700)
		start := 0
		if 17*k > steps {
			start = rapid.IntRange(0, 17*k-steps).Draw(t, "startPadding")
		}
		fromBack := rapid.Bool().Draw(t, "growFromLastDictionary")
		// outlines move the Private DICTs away from (or onto) the offsets at
		// which the integers that point to them change size themselves
		segs := rapid.SampledFrom([]int{0, 0, 3, 3, 12, 40}).Draw(t, "segmentsPerGlyph")
		crossed := map[string]bool{}
		for p := start; p < start+steps; p++ {
			f := sweepFont(k, nGlyphs, notice, p, fromBack, segs)
			var buf bytes.Buffer
			var werr error
			if pn := guard.Try(func() { werr = f.Write(&buf) }); pn != nil {
				t.Fatalf("Write panicked (k=%d glyphs=%d notice=%d padding=%d): %s", k, nGlyphs, notice, p, pn)
			}
			if werr != nil {
				t.Fatalf("Write failed (k=%d glyphs=%d notice=%d padding=%d): %v", k, nGlyphs, notice, p, werr)
			}
			var g *cff.Font
			var rerr error
			if pn := guard.Try(func() { g, rerr = cff.Read(guard.Source(buf.Bytes())) }); pn != nil {
				t.Fatalf("Read panicked on the written font (k=%d glyphs=%d notice=%d padding=%d): %s", k, nGlyphs, notice, p, pn)
			}
			if rerr != nil {
				t.Fatalf("Read rejects the written font (k=%d glyphs=%d notice=%d padding=%d, %d bytes): %v", k, nGlyphs, notice, p, buf.Len(), rerr)
			}
			if len(g.Private) != k || len(g.Glyphs) != nGlyphs {
				t.Fatalf("k=%d glyphs=%d padding=%d: read back %d private dictionaries, %d glyphs", k, nGlyphs, p, len(g.Private), len(g.Glyphs))
			}
			for gid := 0; gid < nGlyphs; gid++ {
				want, got := f.Private[f.FDSelect(glyph.ID(gid))], g.Private[g.FDSelect(glyph.ID(gid))]
				if !reflect.DeepEqual(normPriv(want), normPriv(got)) {
					t.Fatalf("k=%d glyphs=%d notice=%d padding=%d: glyph %d: private dictionary\n  written %+v\n  read    %+v", k, nGlyphs, notice, p, gid, *want, *got)
				}
			}
			switch n := buf.Len(); {
			case n > 32768:
				crossed[">32768"] = true
			case n > 1131:
				crossed[">1131"] = true
			default:
				crossed["small"] = true
			}
		}
		var labels []string
		for c := range crossed {
			labels = append(labels, "file-size:"+c)
		}
		stats.CaseIn("private-size-sweep", stats.Hash(k, nGlyphs, notice, steps, start, segs, fromBack), len(crossed) > 0, func() string {
			return fmt.Sprintf("%d private dictionaries, %d glyphs of %d segments, notice of %d bytes, padding %d..%d", k, nGlyphs, segs, notice, start, start+steps-1)
		}, labels...)
	})
}

func normPriv(p *type1.PrivateDict) type1.PrivateDict {
	q := *p
	if len(q.BlueValues) == 0 {
		q.BlueValues = nil
	}
	if len(q.OtherBlues) == 0 {
		q.OtherBlues = nil
	}
	return q
}

// sweepFont distributes p bytes of growth over the k private dictionaries:
// dictionary j takes up to 17 bytes (7 blue-zone pairs with one-byte deltas,
// then 1-3 bytes through the size class of BlueShift).
func sweepFont(k, nGlyphs, notice, p int, fromBack bool, segs int) *cff.Font {
	info := &type1.FontInfo{FontName: "Sweep", FontMatrix: [6]float64{1, 0, 0, 1, 0, 0}}
	for i := 0; i < notice; i++ {
		info.Notice += string(rune('a' + i%26))
	}
	o := &cff.Outlines{ROS: &cid.SystemInfo{Registry: "Adobe", Ordering: "Identity"}}
	for i := 0; i < nGlyphs; i++ {
		g := cff.NewGlyph("", float64(500+i%7))
		if segs > 0 {
			g.MoveTo(10, 10)
			for q := 0; q < segs; q++ {
				g.LineTo(float64(10+17*(q+1)%400), float64(10+29*(q+1)%600))
			}
		}
		o.Glyphs = append(o.Glyphs, g)
		o.GIDToCID = append(o.GIDToCID, cid.CID(i))
	}
	o.Private = make([]*type1.PrivateDict, k)
	for jj := 0; jj < k; jj++ {
		j := jj
		if fromBack {
			// the last dictionaries grow first: those in front keep their place
			j = k - 1 - jj
		}
		d := &type1.PrivateDict{BlueScale: 0.039625, BlueShift: 8, BlueFuzz: int32(j % 100), StdHW: float64(10 + j%90)}
		take := min(p, 17)
		p -= take
		pairs := min(take/2, 7)
		take -= 2 * pairs
		for q := 0; q < pairs; q++ {
			d.BlueValues = append(d.BlueValues, funit.Int16(10*q), funit.Int16(10*q+5))
		}
		switch take {
		case 1:
			d.BlueShift = 200 // two bytes
		case 2:
			d.BlueShift = 2000 // three bytes
		case 3:
			d.BlueShift = 2000
			d.BlueFuzz = 150 // one byte more
		}
		o.Private[j] = d
		o.FontMatrices = append(o.FontMatrices, [6]float64{0.001, 0, 0, 0.001, 0, 0})
	}
	o.FDSelect = func(gid glyph.ID) int { return int(gid) % k }
	return &cff.Font{FontInfo: info, Outlines: o}
}
