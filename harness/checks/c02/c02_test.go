package c02

import (
	"bytes"
	"encoding/binary"
	"fmt"
	"os"
	"path/filepath"
	"sort"
	"strconv"
	"strings"
	"testing"

	"golang.org/x/image/font/gofont/goregular"
	"golang.org/x/text/language"
	"pgregory.net/rapid"

	"seehuhn.de/go/sfnt/cmap"
	"seehuhn.de/go/sfnt/glyf"
	"seehuhn.de/go/sfnt/glyph"
	"seehuhn.de/go/sfnt/opentype/classdef"
	"seehuhn.de/go/sfnt/opentype/coverage"
	"seehuhn.de/go/sfnt/opentype/gtab"
	genfont "verif/harness/gen/font"
	"verif/harness/gen/lookups"
	"verif/harness/guard"
	"verif/harness/ref/refcff"
	"verif/harness/ref/refcffwalk"
	"verif/harness/ref/refcmap"
	"verif/harness/ref/refname"
	"verif/harness/ref/refsfnt"
	"verif/harness/stats"
)

var langEnglish = language.English

// ---- byte mutators --------------------------------------------------------------

var hostile16 = []int{0, 1, 2, 0x7FFF, 0x8000, 0xFFFE, 0xFFFF}
var hostile32 = []uint32{0, 1, 0x7FFFFFFF, 0x80000000, 0xFFFFFFFF, 0x0000FFFF, 0x00010000}

// mutateBytes applies 0-4 structure-aware mutations.
func mutateBytes(t *rapid.T, in []byte) []byte {
	b := append([]byte(nil), in...)
	n := rapid.IntRange(0, 4).Draw(t, "nMut")
	for i := 0; i < n && len(b) >= 4; i++ {
		pos := rapid.IntRange(0, len(b)-2).Draw(t, "mutPos")
		if rapid.IntRange(0, 3).Draw(t, "aligned") > 0 {
			pos &^= 1
		}
		switch rapid.IntRange(0, 8).Draw(t, "mutKind") {
		case 0:
			v := rapid.SampledFrom(hostile16).Draw(t, "c16")
			b[pos], b[pos+1] = byte(v>>8), byte(v)
		case 1:
			v := rapid.SampledFrom([]int{len(b), len(b) - 1, len(b) + 1, len(b) - 2, len(b) / 2}).Draw(t, "size16")
			b[pos], b[pos+1] = byte(v>>8), byte(v)
		case 2:
			if pos+4 <= len(b) {
				v := rapid.SampledFrom(hostile32).Draw(t, "c32")
				b[pos], b[pos+1], b[pos+2], b[pos+3] = byte(v>>24), byte(v>>16), byte(v>>8), byte(v)
			}
		case 3:
			b[pos] ^= 1 << rapid.IntRange(0, 7).Draw(t, "bit")
		case 4: // alias another field
			src := rapid.IntRange(0, len(b)-2).Draw(t, "src") &^ 1
			b[pos], b[pos+1] = b[src], b[src+1]
		case 5: // small delta
			v := (int(b[pos])<<8 | int(b[pos+1])) + rapid.IntRange(-4, 4).Draw(t, "delta")
			b[pos], b[pos+1] = byte(v>>8), byte(v)
		case 6: // swap two fields
			src := rapid.IntRange(0, len(b)-2).Draw(t, "src") &^ 1
			b[pos], b[pos+1], b[src], b[src+1] = b[src], b[src+1], b[pos], b[pos+1]
		case 7: // truncate
			b = b[:rapid.IntRange(0, len(b)).Draw(t, "cut")]
		default: // random byte
			b[pos] = rapid.Byte().Draw(t, "byte")
		}
	}
	return b
}

// mutateContainer mutates an sfnt file at the directory level and inside tables.
func mutateContainer(t *rapid.T, in []byte) []byte {
	f, err := refsfnt.Parse(in)
	if err != nil {
		return mutateBytes(t, in)
	}
	tables := f.Tables()
	tags := make([]string, 0, len(tables))
	for k := range tables {
		tags = append(tags, k)
	}
	sort.Strings(tags)
	n := rapid.IntRange(0, 3).Draw(t, "nTableOps")
	for i := 0; i < n && len(tags) > 0; i++ {
		tag := rapid.SampledFrom(tags).Draw(t, "opTable")
		switch rapid.IntRange(0, 8).Draw(t, "tableOp") {
		case 8: // a well-formed name table made of records a reader may not understand
			// (Unicode platform only, Windows symbol or UCS-4 encoding, languages
			// outside any list, no records at all, empty strings only)
			var recs []refname.RawRecord
			form := rapid.SampledFrom([]string{"unicode-platform", "win-symbol", "win-ucs4", "win-unknown-language", "mac-unknown-language", "no-records", "empty-strings", "iso-platform"}).Draw(t, "exoticNames")
			for id := 0; id < 7 && form != "no-records"; id++ {
				r := refname.RawRecord{NameID: uint16(id), Data: refname.EncodeUTF16BE(fmt.Sprintf("name %d", id))}
				switch form {
				case "unicode-platform":
					r.Platform, r.Encoding = 0, 3
				case "win-symbol":
					r.Platform, r.Encoding, r.Language = 3, 0, 0x409
				case "win-ucs4":
					r.Platform, r.Encoding, r.Language = 3, 10, 0x409
				case "win-unknown-language":
					r.Platform, r.Encoding, r.Language = 3, 1, 0x0C00
				case "mac-unknown-language":
					r.Platform, r.Encoding, r.Language, r.Data = 1, 0, 150, []byte(fmt.Sprintf("name %d", id))
				case "empty-strings":
					r.Platform, r.Encoding, r.Language, r.Data = 3, 1, 0x409, nil
				default:
					r.Platform, r.Encoding = 2, 1
				}
				recs = append(recs, r)
			}
			if d, err := refname.Build(0, recs, nil, 0); err == nil {
				tables["name"] = d
				stats.Label("font", "name-table:"+form)
			}
		case 0: // delete
			delete(tables, tag)
		case 1: // rename
			nt := rapid.SampledFrom([]string{"kern", "CFF2", "morx", "zzzz", "GSUB", "GPOS", "GDEF", "glyf", "CFF ", "loca"}).Draw(t, "newTag")
			if _, ok := tables[tag]; ok {
				tables[nt] = tables[tag]
				delete(tables, tag)
			}
		case 2: // empty or truncate
			if d, ok := tables[tag]; ok {
				tables[tag] = d[:rapid.IntRange(0, len(d)).Draw(t, "tcut")]
			}
		case 3, 4: // mutate bytes inside
			if d, ok := tables[tag]; ok {
				tables[tag] = mutateBytes(t, d)
			}
		case 5: // replace by another table's data
			other := rapid.SampledFrom(tags).Draw(t, "other")
			if d, ok := tables[other]; ok {
				tables[tag] = d
			}
		case 6: // outlines of a much smaller font under the other tables of this
			// one: cmap, layout tables, names now refer to glyphs that do not exist
			kind := genfont.KindGlyf
			if _, ok := tables["CFF "]; ok {
				kind = rapid.SampledFrom([]genfont.Kind{genfont.KindCFF, genfont.KindCID}).Draw(t, "donorKind")
			}
			c2 := genfont.Gen(genfont.Opts{Kind: kind, MinGlyphs: 1, MaxGlyphs: 3, Layout: genfont.LayoutNone}).Draw(t, "smallDonor")
			var buf bytes.Buffer
			if _, err := c2.Font.Write(&buf); err == nil {
				if f2, err := refsfnt.Parse(buf.Bytes()); err == nil {
					for _, tg := range []string{"maxp", "hmtx", "hhea", "glyf", "loca", "CFF ", "head", "post"} {
						if d, ok := f2.Table(tg); ok {
							if _, have := tables[tg]; have || tg == "post" {
								tables[tg] = d
							}
						}
					}
				}
			}
		default: // splice in the same table of a different (usually larger) font:
			// every table stays well formed, the tables no longer agree
			kind := genfont.KindAny
			c2 := genfont.Gen(genfont.Opts{Kind: kind, MinGlyphs: 2, MaxGlyphs: 60}).Draw(t, "donor")
			var buf bytes.Buffer
			if _, err := c2.Font.Write(&buf); err == nil {
				if f2, err := refsfnt.Parse(buf.Bytes()); err == nil {
					if d, ok := f2.Table(tag); ok {
						tables[tag] = d
					}
				}
			}
		}
	}
	scaler := f.Scaler
	if rapid.IntRange(0, 9).Draw(t, "scalerOp") == 0 {
		scaler = rapid.SampledFrom([]uint32{0x00010000, 0x4F54544F, 0x74727565, 0x74797031, 0}).Draw(t, "scaler")
	}
	out := refsfnt.Assemble(scaler, tables)
	if n := int(out[4])<<8 | int(out[5]); n > 0 && len(out) >= 12+16*n && rapid.IntRange(0, 9).Draw(t, "wrapRecord") == 0 {
		// one directory record whose offset + length passes 2^32: the sum
		// wraps to a small value, so checks made on the wrapped end (inside
		// the file, no overlap) pass while the declared length is enormous
		r := rapid.IntRange(0, n-1).Draw(t, "wrapWhich")
		length := rapid.SampledFrom([]uint32{0x08000030, 0x40000000, 0xC0000000, 0xFFFFFF00}).Draw(t, "wrapLength")
		end := uint32(rapid.SampledFrom([]int{1, 4, 12 + 16*n, len(out) / 2, len(out)}).Draw(t, "wrapEnd"))
		binary.BigEndian.PutUint32(out[12+16*r+8:], end-length) // offset = end - length (mod 2^32)
		binary.BigEndian.PutUint32(out[12+16*r+12:], length)
		stats.Label("font", "directory-record-wraps-2^32")
	}
	if rapid.IntRange(0, 3).Draw(t, "rawToo") == 0 {
		out = mutateBytes(t, out)
	}
	return out
}

// mutateCFFIndex rewrites one offset of one INDEX of a well-formed CFF font
// program (located by the independent CFF walker) to a hostile value sized
// for that INDEX's offSize.  The last offset of an INDEX is the size of its
// data area; random byte mutation of a 1- or 2-byte offset array cannot make
// it large, and rarely leaves all the earlier offsets intact.
func mutateCFFIndex(t *rapid.T, in []byte) []byte {
	p, err := refcffwalk.ParseLayout(in)
	if err != nil {
		return in
	}
	var cand []refcffwalk.Extent
	for _, e := range p.Layout.Extents {
		if p.Layout.OffSize[e.Name] > 0 {
			cand = append(cand, e)
		}
	}
	if len(cand) == 0 {
		return in
	}
	b := append([]byte(nil), in...)
	e := rapid.SampledFrom(cand).Draw(t, "index")
	count := int(b[e.Start])<<8 | int(b[e.Start+1])
	offSize := int(b[e.Start+2])
	k := count
	if rapid.IntRange(0, 2).Draw(t, "whichOffset") == 0 {
		k = rapid.IntRange(0, count).Draw(t, "offsetIdx")
	}
	dataLen := e.End - (e.Start + 3 + (count+1)*offSize) + 1
	max := 1<<(8*offSize) - 1
	v := rapid.SampledFrom([]int{0, 1, dataLen + 1, dataLen + 2, dataLen - 1, len(b), len(b) - e.Start + 1, max, max - 1, max/2 + 1, max / 2, 0x7FFFFFFF & max, 1 << 24 & max, 1 << 28 & max}).Draw(t, "offsetValue")
	pos := e.Start + 3 + k*offSize
	for j := 0; j < offSize; j++ {
		b[pos+j] = byte(v >> (8 * (offSize - 1 - j)))
	}
	stats.Label("cff", fmt.Sprintf("index-offset-mutation:offSize%d", offSize))
	return b
}

// mutateCFFSection sets one 8- or 16-bit field inside one of the small
// structures of a CFF font program (FDSelect, charset, encoding, a Private
// DICT, the Top DICT INDEX - located by the independent walker) to a hostile
// value, at any byte alignment.  Charstring bytes dominate a font program, so
// uniformly placed mutations hardly ever reach these few dozen bytes, and
// their records are 3 bytes long (FDSelect ranges), which even-aligned
// mutations miss half of the time.
func mutateCFFSection(t *rapid.T, in []byte) []byte {
	p, err := refcffwalk.ParseLayout(in)
	if err != nil {
		return in
	}
	var cand []refcffwalk.Extent
	for _, e := range p.Layout.Extents {
		switch {
		case e.Name == "FDSelect", e.Name == "Charset", e.Name == "Encoding", e.Name == "TopDICT", strings.HasPrefix(e.Name, "Private["):
			if e.End-e.Start >= 2 && e.End <= len(in) {
				cand = append(cand, e)
			}
		}
	}
	if len(cand) == 0 {
		return in
	}
	b := append([]byte(nil), in...)
	for _, e := range cand {
		if e.Name == "FDSelect" { // small and rare: weighted up
			cand = append(cand, e, e, e)
			break
		}
	}
	e := rapid.SampledFrom(cand).Draw(t, "section")
	nGlyphs := 0
	if p.Font != nil {
		nGlyphs = len(p.Font.Glyphs)
	}
	if e.Name == "FDSelect" && b[e.Start] == 3 && e.End-e.Start >= 8 && rapid.Bool().Draw(t, "fdSelectField") {
		// format 3: format(1) nRanges(2) {first(2) fd(1)}* sentinel(2): one field by name
		nr := int(b[e.Start+1])<<8 | int(b[e.Start+2])
		if e.Start+3+3*nr+2 <= e.End && nr >= 1 {
			r := rapid.IntRange(0, nr-1).Draw(t, "range")
			rp := e.Start + 3 + 3*r
			put := func(pos, v int) { b[pos], b[pos+1] = byte(v>>8), byte(v) }
			first := int(b[rp])<<8 | int(b[rp+1])
			switch rapid.IntRange(0, 3).Draw(t, "fdSelectWhat") {
			case 0:
				put(rp, rapid.SampledFrom([]int{nGlyphs, nGlyphs + 1, nGlyphs + 300, 0xFFFF, 0x7FFF, first - 1, first + 1, 0}).Draw(t, "first"))
			case 1:
				b[rp+2] = byte(rapid.SampledFrom([]int{len(p.Font.FDs), len(p.Font.FDs) + 1, 255, 128}).Draw(t, "fd"))
			case 2:
				put(e.Start+3+3*nr, rapid.SampledFrom([]int{nGlyphs - 1, nGlyphs + 1, 0, 0xFFFF, first}).Draw(t, "sentinel"))
			default:
				put(e.Start+1, rapid.SampledFrom([]int{nr + 1, nr - 1, 0, 0xFFFF, 0x100 + nr}).Draw(t, "nRanges"))
			}
			stats.Label("cff", "section-mutation:FDSelect-format3-field")
			return b
		}
	}
	for i := rapid.IntRange(1, 2).Draw(t, "nSectionMut"); i > 0; i-- {
		pos := rapid.IntRange(e.Start, e.End-1).Draw(t, "sectionPos")
		if rapid.Bool().Draw(t, "oneByte") || pos+2 > e.End {
			b[pos] = byte(rapid.SampledFrom([]int{0, 1, 2, 3, 0x7F, 0x80, 0xFE, 0xFF, int(b[pos]) + 1, int(b[pos]) - 1}).Draw(t, "v8"))
		} else {
			v := rapid.SampledFrom([]int{0, 1, 0x7FFF, 0x8000, 0xFFFE, 0xFFFF, nGlyphs - 1, nGlyphs, nGlyphs + 1, nGlyphs + 28, 2 * nGlyphs,
				(int(b[pos])<<8 | int(b[pos+1])) + 1, (int(b[pos])<<8 | int(b[pos+1])) - 1}).Draw(t, "v16")
			b[pos], b[pos+1] = byte(v>>8), byte(v)
		}
	}
	stats.Label("cff", "section-mutation:"+strings.SplitN(e.Name, "[", 2)[0])
	return b
}

// truncateCmapSubtable shortens a cmap subtable by a few bytes and keeps its
// own length field consistent, the way a foreign encoder's off-by-some would:
// plain truncation of the table leaves the length field pointing past the end,
// which the table-level decoder rejects before any format decoder runs.
func truncateCmapSubtable(t *rapid.T, sub []byte) []byte {
	if len(sub) < 8 {
		return sub
	}
	format := int(sub[0])<<8 | int(sub[1])
	cut := rapid.SampledFrom([]int{1, 2, 2, 2, 3, 4, 6, 8, 12, 16}).Draw(t, "subCut")
	if rapid.IntRange(0, 3).Draw(t, "cutAnywhere") == 0 {
		cut = rapid.IntRange(1, len(sub)).Draw(t, "subCutAny")
	}
	n := len(sub) - cut
	if rapid.IntRange(0, 3).Draw(t, "tinySub") == 0 {
		// down to the bare header fields (and between them)
		n = rapid.IntRange(6, 17).Draw(t, "tinyLen")
		if n > len(sub) {
			n = len(sub)
		}
	}
	switch format {
	case 0, 2, 4, 6:
		if n < 6 {
			return sub
		}
		out := append([]byte(nil), sub[:n]...)
		out[2], out[3] = byte(n>>8), byte(n)
		return out
	case 8, 10, 12, 13:
		if n < 8 {
			return sub
		}
		out := append([]byte(nil), sub[:n]...)
		binary.BigEndian.PutUint32(out[4:], uint32(n))
		return out
	}
	return sub
}

// ---- seed generators --------------------------------------------------------------

type drawChooser struct{ t *rapid.T }

func (d drawChooser) Intn(label string, n int) int {
	if n <= 1 {
		return 0
	}
	return rapid.IntRange(0, n-1).Draw(d.t, label)
}

func fontBytes(t *rapid.T, kind genfont.Kind, maxGlyphs int) ([]byte, *genfont.Case) {
	c := genfont.Gen(genfont.Opts{Kind: kind, MaxGlyphs: maxGlyphs}).Draw(t, "font")
	var buf bytes.Buffer
	if _, err := c.Font.Write(&buf); err != nil {
		t.Skip("font not writable")
	}
	return buf.Bytes(), c
}

// tableOfFont returns one table of a generated font (or of goregular).
func tableOfFont(t *rapid.T, tag string) []byte {
	if rapid.IntRange(0, 5).Draw(t, "goregular") == 0 {
		if f, err := refsfnt.Parse(goregular.TTF); err == nil {
			if d, ok := f.Table(tag); ok {
				return d
			}
		}
	}
	b, _ := fontBytes(t, genfont.KindAny, 24)
	f, err := refsfnt.Parse(b)
	if err != nil {
		t.Skip("unparsable")
	}
	d, ok := f.Table(tag)
	if !ok {
		t.Skip("table not present")
	}
	return d
}

// subrSeed assembles (with the reference CFF writer) a font program whose
// charstrings and subroutines are drawn from a hostile token grammar: calls
// that resolve to existing global/local subroutines (so that call chains and
// cycles form, including calls that are the last byte of their body), bodies
// without return/endchar, stack-heavy operand runs, hint operators and stray
// bytes.  The library's own writer never emits subroutines, so mutating its
// output hardly ever reaches the call logic of the charstring interpreter.
func subrSeed(t *rapid.T) []byte {
	nG := rapid.IntRange(0, 3).Draw(t, "nGsubrs")
	nL := rapid.IntRange(0, 3).Draw(t, "nLsubrs")
	num := func(v int) []byte { // -107..107
		return []byte{byte(v + 139)}
	}
	arith := [][2]int{{3, 2}, {4, 2}, {5, 1}, {9, 1}, {10, 2}, {11, 2}, {12, 2}, {14, 1}, {15, 2},
		{18, 1}, {20, 2}, {21, 1}, {22, 4}, {23, 0}, {24, 2}, {26, 1}, {27, 1}, {28, 2}, {29, 1}, {30, 2}, {29, 3}, {30, 4}, {30, 2}, {30, 3}}
	small := []int{0, 0, 1, 1, -1, 2, 3, 4, -2, 31, 32, 47, 48, 100}
	arithOnly := rapid.IntRange(0, 2).Draw(t, "arithOnly") == 0
	body := func(lab string) []byte {
		var b []byte
		if arithOnly {
			// nothing but arithmetic/stack/storage statements, each with the
			// operands it takes (small values, so that counts and indices of 0,
			// 1, -1 and just beyond the stack depth all occur): no statement
			// fails for a reason of form, so every one of them is executed
			depth := 0
			huge := func() []byte {
				// +-32767 divided one to three times by 1/65536 (div results
				// are not bound to the 16.16 range of literal operands)
				v := []byte{28, 0x7F, 0xFF}
				if rapid.Bool().Draw(t, lab+"HugeNeg") {
					v = []byte{28, 0x80, 0x01}
				}
				for d := rapid.IntRange(1, 3).Draw(t, lab+"HugeDivs"); d > 0; d-- {
					v = append(v, 255, 0, 0, 0, 1, 12, 12)
				}
				return v
			}
			for i := rapid.IntRange(1, 12).Draw(t, lab+"Stmts"); i > 0; i-- {
				if rapid.IntRange(0, 5).Draw(t, lab+"ValidRoll") == 0 {
					// v1 .. vn  n  J  roll, then n drops: a roll that is valid
					// whatever came before, with a shift of any magnitude
					n := rapid.IntRange(1, 4).Draw(t, lab+"RollN")
					for k := 0; k < n; k++ {
						b = append(b, num(k)...)
					}
					b = append(b, num(n)...)
					if rapid.Bool().Draw(t, lab+"RollHuge") {
						b = append(b, huge()...)
					} else {
						b = append(b, num(rapid.SampledFrom(small).Draw(t, lab+"RollJ"))...)
					}
					b = append(b, 12, 30)
					for k := 0; k < n; k++ {
						b = append(b, 12, 18)
					}
					continue
				}
				ar := rapid.SampledFrom(arith).Draw(t, lab+"Arith")
				for k := 0; k < ar[1]; k++ {
					if rapid.IntRange(0, 5).Draw(t, lab+"Huge") == 0 {
						b = append(b, huge()...) // an operand of enormous magnitude
						continue
					}
					b = append(b, num(rapid.SampledFrom(small).Draw(t, lab+"Small"))...)
				}
				b = append(b, 12, byte(ar[0]))
				depth += 2
				if depth > 30 {
					b = append(b, 12, 18, 12, 18) // drop drop
					depth -= 2
				}
			}
			return append(b, 14)
		}
		n := rapid.IntRange(0, 8).Draw(t, lab+"Len")
		for i := 0; i < n; i++ {
			switch rapid.IntRange(0, 13).Draw(t, lab+"Tok") {
			case 12, 13:
				// an arithmetic/stack operator with as many small operands as
				// it takes (12 x: and or not abs add sub div neg eq drop put
				// get ifelse random mul sqrt dup exch index roll)
				ar := rapid.SampledFrom(arith).Draw(t, lab+"Arith")
				for k := 0; k < ar[1]; k++ {
					b = append(b, num(rapid.SampledFrom(small).Draw(t, lab+"Small"))...)
				}
				b = append(b, 12, byte(ar[0]))
			case 0, 1, 2:
				if rapid.Bool().Draw(t, lab+"NumSmall") {
					b = append(b, num(rapid.SampledFrom([]int{0, 1, -1, 2, 3}).Draw(t, lab+"Small"))...)
					break
				}
				b = append(b, num(rapid.IntRange(-107, 107).Draw(t, lab+"Num"))...)
			case 3, 4:
				if nG > 0 {
					b = append(b, num(rapid.IntRange(0, nG-1).Draw(t, lab+"G")-107)...)
					b = append(b, 29) // callgsubr
				}
			case 5, 6:
				if nL > 0 {
					b = append(b, num(rapid.IntRange(0, nL-1).Draw(t, lab+"L")-107)...)
					b = append(b, 10) // callsubr
				}
			case 7:
				b = append(b, 11) // return
			case 8:
				b = append(b, 14) // endchar
			case 9:
				b = append(b, rapid.SampledFrom([]byte{1, 3, 18, 23, 19, 20, 21, 22, 4, 5, 6, 7, 8, 24, 25, 26, 27, 30, 31}).Draw(t, lab+"Op"))
			case 10:
				b = append(b, 12, byte(rapid.IntRange(0, 40).Draw(t, lab+"Esc")))
			default:
				b = append(b, byte(rapid.IntRange(0, 255).Draw(t, lab+"Raw")))
			}
		}
		return b
	}
	spec := refcff.Spec{FontName: "Subr", IndexOffSize: rapid.SampledFrom([]int{0, 0, 1, 2, 3, 4}).Draw(t, "indexOffSize")}
	for i := 0; i < nG; i++ {
		spec.GSubrs = append(spec.GSubrs, body("gsubr"))
	}
	fd := refcff.FDSpec{}
	for i := 0; i < nL; i++ {
		fd.Subrs = append(fd.Subrs, body("lsubr"))
	}
	spec.FDs = []refcff.FDSpec{fd}
	nGlyphs := rapid.IntRange(1, 3).Draw(t, "nGlyphs")
	if rapid.Bool().Draw(t, "cidSeed") {
		// CID-keyed: 1-3 Font DICTs and an FDSelect in either format, in runs
		spec.CID = true
		nGlyphs = rapid.IntRange(1, 9).Draw(t, "nGlyphsCID")
		for i := rapid.IntRange(0, 2).Draw(t, "moreFDs"); i > 0; i-- {
			spec.FDs = append(spec.FDs, refcff.FDSpec{DefaultWidthX: 500, OmitSubrs: rapid.Bool().Draw(t, "omitSubrs")})
		}
		spec.FDSelectFormat = rapid.SampledFrom([]int{0, 3, 3}).Draw(t, "fdSelectFormat")
		cur := 0
		for i := 0; i < nGlyphs; i++ {
			if rapid.IntRange(0, 2).Draw(t, "fdSwitch") == 0 {
				cur = rapid.IntRange(0, len(spec.FDs)-1).Draw(t, "fd")
			}
			spec.FDSelect = append(spec.FDSelect, cur)
		}
		stats.Label("cff", "seed:harness-written-cid")
	}
	if !spec.CID && rapid.IntRange(0, 3).Draw(t, "predefCharset") == 0 {
		// predefined charsets name 229 (ISOAdobe), 166 (Expert) and 87
		// (ExpertSubset) glyphs: glyph counts around and between these sizes
		spec.PredefCharset = rapid.IntRange(0, 2).Draw(t, "charsetID")
		nGlyphs = rapid.SampledFrom([]int{1, 86, 87, 88, 100, 165, 166, 167, 200, 228, 229, 230, 240}).Draw(t, "nGlyphsPredef")
		stats.Label("cff", "seed:predefined-charset")
		for i := nGlyphs - 3; i > 0; i-- {
			spec.CharStrings = append(spec.CharStrings, []byte{14}) // endchar
		}
		nGlyphs = 3
	}
	for i := nGlyphs; i > 0; i-- {
		spec.CharStrings = append(spec.CharStrings, body("glyph"))
	}
	var out []byte
	if guard.Try(func() { out = refcff.Build(spec) }) != nil {
		t.Skip("not assembled")
	}
	stats.Label("cff", "seed:hostile-subroutines")
	if arithOnly {
		stats.Label("cff", "seed:arithmetic-statements-only")
	}
	return out
}

// callTreeSeed is a CFF font whose one glyph calls a tree of short global
// subroutines (depth 1-9, fan-out 2-6) over one long leaf subroutine (1-60
// KiB of cheap, legal code).  The work a reader does on it must stay in
// proportion to the size of the data: either it stops at its budget for
// subroutine code or the tree is small enough to be run completely.
func callTreeSeed(t *rapid.T) []byte {
	depth := rapid.IntRange(1, 9).Draw(t, "treeDepth")
	fan := rapid.IntRange(2, 6).Draw(t, "treeFanOut")
	leafLen := rapid.SampledFrom([]int{1 << 10, 4 << 10, 10 << 10, 20 << 10, 40 << 10, 60 << 10}).Draw(t, "leafLen")
	unit := rapid.SampledFrom([][]byte{
		{139, 12, 18},                 // 0 drop
		{140, 141, 12, 10, 12, 18},    // 1 2 add drop
		{139, 12, 27, 12, 18, 12, 18}, // 0 dup drop drop
		{239, 12, 14, 12, 18},         // 100 neg drop
	}).Draw(t, "leafUnit")
	var leaf []byte
	for len(leaf)+len(unit) < leafLen {
		leaf = append(leaf, unit...)
	}
	leaf = append(leaf, 11) // return
	spec := refcff.Spec{FontName: "Tree", IndexOffSize: rapid.SampledFrom([]int{0, 0, 2, 4}).Draw(t, "indexOffSize")}
	// gsubr i (i < depth) calls gsubr i+1 fan times; gsubr depth is the leaf;
	// the bias for fewer than 1240 subroutines is 107
	for i := 0; i < depth; i++ {
		var b []byte
		for k := 0; k < fan; k++ {
			b = append(b, byte(i+1-107+139), 29) // callgsubr
		}
		spec.GSubrs = append(spec.GSubrs, append(b, 11))
	}
	spec.GSubrs = append(spec.GSubrs, leaf)
	spec.FDs = []refcff.FDSpec{{}}
	spec.CharStrings = [][]byte{{14}, {byte(0 - 107 + 139), 29, 14}}
	var out []byte
	if guard.Try(func() { out = refcff.Build(spec) }) != nil {
		t.Skip("not assembled")
	}
	stats.Label("cff", "seed:call-tree-over-long-leaf")
	return out
}

// wrappedCFFFile combines two things that are harmless alone: a directory
// record for the "CFF " table whose offset + length passes 2^32 (its wrapped
// end lies inside the file, its declared length is close to 4 GiB), and a CFF
// font program one of whose INDEX offsets is a hostile value sized for its
// offset width.  A reader that takes the declared length for the size of the
// table has no file size left to check the INDEX against.
func wrappedCFFFile(t *rapid.T) []byte {
	cffb := mutateCFFIndex(t, subrSeed(t))
	file := refcff.WrapOTF(cffb, rapid.IntRange(1, 9).Draw(t, "wrapNumGlyphs"))
	f, err := refsfnt.Parse(file)
	if err != nil {
		t.Skip("not assembled")
	}
	for i, r := range f.Records {
		if r.Tag != "CFF " {
			continue
		}
		length := rapid.SampledFrom([]uint32{0x40000000, 0x7FFFFFF0, 0xC0000000, 0xFFFFFF00, 0xFFFFFFF0}).Draw(t, "wrapLength")
		end := r.Offset + length // wraps
		if end == 0 || int(end) > len(file) || end > r.Offset {
			// the wrapped end must lie inside the file, in front of the table
			length = uint32(0x100000000 - uint64(r.Offset) + uint64(rapid.IntRange(1, int(r.Offset)).Draw(t, "wrapEnd")))
		}
		binary.BigEndian.PutUint32(file[12+16*i+12:], length)
		stats.Label("font", "cff-record-wraps-2^32+hostile-index-offset")
		return file
	}
	t.Skip("no CFF record")
	return nil
}

// seedIsAliased is set by seedFor when it returns a seed of the recorded
// aliasing class; such a seed is used as it is (a mutated count field would
// turn 100 references into 65535 and the case into minutes and gigabytes).
var seedIsAliased bool

func seedFor(t *rapid.T, name string) []byte {
	seedIsAliased = false
	switch name {
	case "gtab.Read/GSUB", "gtab.Read/GPOS", "gdef.Read", "name.Decode":
		if stats.IsListed("C02", "alloc-aliased:"+map[bool]string{true: "strings:", false: "coverage:"}[name == "name.Decode"]+name) &&
			rapid.IntRange(0, 399).Draw(t, "aliasedSeed") == 211 {
			stats.Label("layout", "seed:aliased-offset-targets")
			seedIsAliased = true
			return aliasedSeed(t, name)
		}
	}
	switch name {
	case "gtab.Read/GSUB", "gtab.Read/GPOS":
		// shared sub-tables (shared_test.go): the other recorded finding of these decoders
		if stats.IsListed("C02", "reencode-shared:"+name) && rapid.IntRange(0, 99).Draw(t, "sharedSeed") == 53 {
			stats.Label("layout", "seed:shared-sub-tables")
			return sharedSeed(t, name)
		}
	}
	switch name {
	case "sfnt.Read/ReaderAt", "sfnt.Read/Reader", "header.Read":
		if rapid.IntRange(0, 9).Draw(t, "goregular") == 0 {
			return goregular.TTF
		}
		b, _ := fontBytes(t, genfont.KindAny, 24)
		return b
	case "cff.Read":
		if rapid.IntRange(0, 9).Draw(t, "cffCallTreeSeed") == 0 {
			return callTreeSeed(t)
		}
		if rapid.IntRange(0, 2).Draw(t, "cffSubrSeed") == 0 {
			return subrSeed(t)
		}
		kind := rapid.SampledFrom([]genfont.Kind{genfont.KindCFF, genfont.KindCID}).Draw(t, "cffKind")
		b, _ := fontBytes(t, kind, 24)
		f, _ := refsfnt.Parse(b)
		d, ok := f.Table("CFF ")
		if !ok {
			t.Skip("no CFF")
		}
		return d
	case "cmap.Decode":
		switch rapid.IntRange(0, 4).Draw(t, "cmapSeed") {
		case 0:
			return tableOfFont(t, "cmap")
		case 4:
			// a format 12 or 13 subtable with many sorted, non-overlapping
			// groups of drawn sizes: each group may be within any per-group
			// limit while the total is far out of proportion to the 12 bytes
			// a group occupies
			n := rapid.OneOf(rapid.IntRange(1, 8), rapid.IntRange(9, 300)).Draw(t, "nGroups")
			format := rapid.SampledFrom([]int{12, 12, 12, 13}).Draw(t, "bigFormat")
			sub := make([]byte, 16, 16+12*n)
			sub[1] = byte(format)
			binary.BigEndian.PutUint32(sub[4:], uint32(16+12*n))
			binary.BigEndian.PutUint32(sub[12:], uint32(n))
			size := rapid.SampledFrom([]int{1, 300, 65535, 65536, 65537, 1 << 20}).Draw(t, "groupSize")
			code := uint32(rapid.IntRange(0, 70000).Draw(t, "firstCode"))
			for i := 0; i < n; i++ {
				sz := size
				if rapid.IntRange(0, 3).Draw(t, "varySize") == 0 {
					sz = rapid.IntRange(1, 70000).Draw(t, "size")
				}
				sub = binary.BigEndian.AppendUint32(sub, code)
				sub = binary.BigEndian.AppendUint32(sub, code+uint32(sz)-1)
				sub = binary.BigEndian.AppendUint32(sub, uint32(rapid.IntRange(0, 65535).Draw(t, "startGid")))
				code += uint32(sz) + uint32(rapid.IntRange(0, 3).Draw(t, "gap"))
			}
			stats.Label("cmap", "seed:many-large-groups")
			tbl := cmap.Table{{PlatformID: 3, EncodingID: 10}: sub}
			var out []byte
			if guard.Try(func() { out = tbl.Encode() }) != nil {
				t.Skip("cmap table not encodable")
			}
			return out
		default:
			// table with harness-encoded subtables in formats the library reads but does not write
			tbl := cmap.Table{}
			nsub := rapid.IntRange(1, 3).Draw(t, "nSub")
			for i := 0; i < nsub; i++ {
				key := cmap.Key{PlatformID: uint16(rapid.SampledFrom([]int{0, 1, 3}).Draw(t, "pid")), EncodingID: uint16(rapid.SampledFrom([]int{0, 1, 3, 4, 10}).Draw(t, "eid"))}
				var sub []byte
				switch rapid.IntRange(0, 3).Draw(t, "fmt") {
				case 0:
					var g [256]byte
					for k := 0; k < 20; k++ {
						g[rapid.IntRange(0, 255).Draw(t, "c")] = byte(rapid.IntRange(0, 255).Draw(t, "g"))
					}
					sub = refcmap.EncodeFormat0(&g, 0)
				case 1:
					g := new([65536]uint16)
					st := rapid.IntRange(0, 65000).Draw(t, "c0")
					for k := 0; k < rapid.IntRange(0, 40).Draw(t, "nc"); k++ {
						g[st+k] = uint16(rapid.IntRange(0, 300).Draw(t, "g"))
					}
					sub = refcmap.EncodeFormat6(g, 0, drawChooser{t})
				case 2:
					g := new([65536]uint16)
					for k := 0; k < rapid.IntRange(0, 30).Draw(t, "nc"); k++ {
						g[rapid.IntRange(0, 65535).Draw(t, "c")] = uint16(rapid.IntRange(1, 65535).Draw(t, "g"))
					}
					var err error
					sub, _, err = refcmap.EncodeFormat4(g, 0, drawChooser{t})
					if err != nil {
						continue
					}
				default:
					m := map[uint32]uint16{}
					for k := 0; k < rapid.IntRange(0, 30).Draw(t, "nc"); k++ {
						m[uint32(rapid.IntRange(0, 0x10FFFF).Draw(t, "c"))] = uint16(rapid.IntRange(1, 65535).Draw(t, "g"))
					}
					sub, _ = refcmap.EncodeFormat12(m, 0, drawChooser{t})
				}
				if len(sub) > 0 && rapid.IntRange(0, 3).Draw(t, "shortSub") == 0 {
					sub = truncateCmapSubtable(t, sub)
					stats.Label("cmap", "seed:subtable-shortened-consistently")
				}
				tbl[key] = sub
			}
			var out []byte
			if guard.Try(func() { out = tbl.Encode() }) != nil {
				t.Skip("cmap table not encodable")
			}
			return out
		}
	case "glyf.Decode":
		if rapid.IntRange(0, 7).Draw(t, "hugeGlyph") == 0 {
			// one simple glyph with as many points as the format can count
			// (the last end point is a 16-bit number), spelled with repeated
			// flags so that it stays a few hundred bytes long
			stats.Label("glyf", "seed:huge-point-count")
			np := rapid.SampledFrom([]int{255, 256, 257, 511, 512, 513, 32767, 32768, 65279, 65280, 65534, 65535, 65536}).Draw(t, "nPoints")
			nc := rapid.IntRange(1, 3).Draw(t, "nContours")
			g := hugeSimpleGlyph(np, nc, rapid.SampledFrom([]int{255, 254, 128, 1}).Draw(t, "repeat"))
			loca := []byte{0, 0, 0, 0, 0, 0, 0, 0, byte(len(g) >> 24), byte(len(g) >> 16), byte(len(g) >> 8), byte(len(g))}
			out := []byte{1, 0, byte(len(loca))}
			out = append(out, loca...)
			return append(out, g...)
		}
		b, c := fontBytes(t, genfont.KindGlyf, 30)
		_ = b
		enc := c.Font.Outlines.(*glyf.Outlines).Glyphs.Encode()
		out := []byte{byte(enc.LocaFormat), byte(len(enc.LocaData) >> 8), byte(len(enc.LocaData))}
		out = append(out, enc.LocaData...)
		return append(out, enc.GlyfData...)
	case "gtab.Read/GSUB", "gtab.Read/GPOS":
		kind := gtab.Type(gtab.TypeGsub)
		if name == "gtab.Read/GPOS" {
			kind = gtab.TypeGpos
		}
		env := lookups.GenEnv(rapid.IntRange(0, 3).Draw(t, "wide") == 0).Draw(t, "env")
		mode := lookups.Defined
		if rapid.Bool().Draw(t, "wild") {
			mode = lookups.Wild
		}
		allow := lookups.AllEncodableFormats(kind)
		ir := lookups.GenInfo(env, lookups.Options{Kind: kind, Mode: mode, MinLookups: 1, MaxLookups: 5, Allow: allow, Unimplemented: true}, lookups.InfoOptions{}).Draw(t, "info")
		var out []byte
		if guard.Try(func() { out = ir.Info.Encode() }) != nil {
			t.Skip("not encodable")
		}
		if rapid.IntRange(0, 3).Draw(t, "extensionForm") == 0 {
			// every lookup spelled through extension subtables, with
			// occasional hostile records (extension of an extension, a
			// record pointing at itself or at its neighbour, unknown types)
			if e2, ok := lookups.Extensionize(out, kind, lookups.ExtOptions{Hostile: func(label string, n int) int {
				if rapid.IntRange(0, 3).Draw(t, label+"Dev") != 0 {
					return 0
				}
				return rapid.IntRange(0, n-1).Draw(t, label)
			}}); ok {
				out = e2
				stats.Label("layout", "seed:extension-form")
			}
		}
		return out
	case "gpos-degenerate":
		// valid GPOS tables whose records have size zero (all value formats 0)
		var st gtab.Subtable
		cov := coverage.Set{1: true, 2: true}
		switch rapid.IntRange(0, 2).Draw(t, "degKind") {
		case 0:
			st = &gtab.Gpos2_2{Cov: cov, Class1: classdef.Table{1: 1}, Class2: classdef.Table{2: 1},
				Adjust: [][]*gtab.PairAdjust{{{}, {}}, {{}, {}}}}
		case 1:
			st = gtab.Gpos2_1{{Left: 1, Right: 2}: {}, {Left: 1, Right: 3}: {}, {Left: 2, Right: 2}: {}}
		default:
			st = &gtab.Gpos1_2{Cov: coverage.Table{1: 0, 2: 1}, Adjust: []*gtab.GposValueRecord{nil, nil}}
		}
		info := &gtab.Info{
			ScriptList:  gtab.ScriptListInfo{language.MustParse("und-Latn-x-latn"): {Required: 0xFFFF, Optional: []gtab.FeatureIndex{0}}},
			FeatureList: []*gtab.Feature{{Tag: "kern", Lookups: []gtab.LookupIndex{0}}},
			LookupList:  gtab.LookupList{{Meta: &gtab.LookupMetaInfo{LookupType: map[bool]uint16{true: 1, false: 2}[func() bool { _, ok := st.(*gtab.Gpos1_2); return ok }()]}, Subtables: []gtab.Subtable{st}}},
		}
		var out []byte
		if guard.Try(func() { out = info.Encode() }) != nil {
			t.Skip("not encodable")
		}
		return out
	case "gdef.Read":
		env := lookups.GenEnv(rapid.Bool().Draw(t, "wide")).Draw(t, "env")
		var out []byte
		if guard.Try(func() { out = env.Gdef.Encode() }) != nil {
			t.Skip("not encodable")
		}
		return out
	case "coverage.Read", "coverage.ReadSet":
		var gg []glyph.ID
		g := rapid.OneOf(rapid.IntRange(0, 200), rapid.IntRange(65490, 65535)).Draw(t, "g0")
		if rapid.Bool().Draw(t, "runs") {
			// few long runs: the encoder chooses the range format
			for i := rapid.IntRange(1, 6).Draw(t, "nRuns"); i > 0 && g <= 0xFFFF; i-- {
				for k := rapid.SampledFrom([]int{1, 2, 4, 9, 30, 300}).Draw(t, "runLen"); k > 0 && g <= 0xFFFF; k-- {
					gg = append(gg, glyph.ID(g))
					g++
				}
				g += rapid.SampledFrom([]int{1, 2, 7, 1000}).Draw(t, "gap")
			}
			return lookups.CovTable(gg).Encode()
		}
		for i := rapid.IntRange(0, 40).Draw(t, "n"); i > 0 && g <= 0xFFFF; i-- {
			gg = append(gg, glyph.ID(g))
			g += rapid.SampledFrom([]int{1, 1, 1, 2, 7, 1000}).Draw(t, "step")
		}
		return lookups.CovTable(gg).Encode()
	case "classdef.Read":
		cd := classdef.Table{}
		g := rapid.OneOf(rapid.IntRange(0, 200), rapid.IntRange(65490, 65535)).Draw(t, "g0")
		for i := rapid.IntRange(0, 40).Draw(t, "n"); i > 0 && g <= 0xFFFF; i-- {
			cd[glyph.ID(g)] = uint16(rapid.IntRange(1, 5).Draw(t, "cls"))
			g += rapid.SampledFrom([]int{1, 1, 1, 2, 7, 1000}).Draw(t, "step")
		}
		return cd.Append(nil)
	case "name.Decode":
		return tableOfFont(t, "name")
	case "head.Read":
		return tableOfFont(t, "head")
	case "hmtx.Decode":
		hh, hm := tableOfFont(t, "hhea"), []byte(nil)
		// hmtx of the same kind of font is not needed to be consistent: the decoder must cope
		hm = tableOfFont(t, "hmtx")
		out := []byte{byte(len(hh) >> 8), byte(len(hh))}
		out = append(out, hh...)
		return append(out, hm...)
	case "maxp.Read":
		return tableOfFont(t, "maxp")
	case "os2.Read":
		return tableOfFont(t, "OS/2")
	case "post.Read":
		return tableOfFont(t, "post")
	case "kern.Read":
		var b []byte
		u16 := func(v int) { b = append(b, byte(v>>8), byte(v)) }
		ns := rapid.IntRange(0, 3).Draw(t, "nSub")
		u16(0)
		u16(ns)
		for i := 0; i < ns; i++ {
			np := rapid.IntRange(0, 12).Draw(t, "nPairs")
			u16(0)
			u16(14 + 6*np)
			b = append(b, byte(rapid.SampledFrom([]int{0, 0, 1, 2}).Draw(t, "fmt")), byte(rapid.SampledFrom([]int{1, 1, 3, 9, 0, 5}).Draw(t, "cov")))
			u16(np)
			u16(0)
			u16(0)
			u16(0)
			for k := 0; k < np; k++ {
				u16(rapid.IntRange(0, 50).Draw(t, "l"))
				u16(rapid.IntRange(0, 50).Draw(t, "r"))
				u16(rapid.IntRange(0, 65535).Draw(t, "v"))
			}
		}
		return b
	}
	panic("no seed generator for " + name)
}

// ---- the rapid tests: one per decoder group ---------------------------------------------

// hugeSimpleGlyph spells a simple glyph with np points in nc contours whose
// points all lie at the origin: every flag says "on curve, x and y as before"
// and is followed by a repeat count (at most rep).
func hugeSimpleGlyph(np, nc, rep int) []byte {
	if nc > np {
		nc = np
	}
	g := []byte{byte(nc >> 8), byte(nc), 0, 0, 0, 0, 0, 0, 0, 0}
	for i := 1; i <= nc; i++ {
		end := np*i/nc - 1
		g = append(g, byte(end>>8), byte(end))
	}
	g = append(g, 0, 0) // no instructions
	const flag = 0x01 | 0x10 | 0x20
	for left := np; left > 0; {
		k := left - 1
		if k > rep {
			k = rep
		}
		if k == 0 {
			g = append(g, flag)
		} else {
			g = append(g, flag|0x08, byte(k))
		}
		left -= k + 1
	}
	for len(g)%4 != 0 {
		g = append(g, 0)
	}
	return g
}

func runGroup(t *testing.T, sub string, names ...string) {
	rapid.Check(t, func(t *rapid.T) {
		name := rapid.SampledFrom(names).Draw(t, "target")
		tg := targetByName(name)
		seed := seedFor(t, name)
		var b []byte
		if strings.HasPrefix(name, "sfnt.Read") && rapid.IntRange(0, 9).Draw(t, "wrappedCFF") == 0 {
			b = wrappedCFFFile(t)
			seed = b
		} else if strings.HasPrefix(name, "sfnt.Read") || name == "header.Read" {
			b = mutateContainer(t, seed)
		} else {
			if name == "cff.Read" {
				switch rapid.IntRange(0, 4).Draw(t, "cffMut") {
				case 0:
					seed = mutateCFFIndex(t, seed)
				case 1, 2:
					seed = mutateCFFSection(t, seed)
				}
			}
			if seedIsAliased {
				b = seed
			} else {
				b = mutateBytes(t, seed)
			}
		}
		o := tg.run(b)
		if err := tg.verdict(b, o); err != nil {
			p := stats.SaveReplay(fmt.Sprintf("TestC02Replay--%s-%012x.bin", strings.NewReplacer("/", "_", ".", "_").Replace(name), stats.Hash(b)&0xffffffffffff), append([]byte(name+"\n"), b...))
			t.Fatalf("%v\n(input saved as %s)", err, p)
		}
		lab := "rejected"
		if o.accepted {
			lab = "accepted"
		}
		mutated := "mutated"
		if bytes.Equal(b, seed) {
			mutated = "unmutated"
		}
		// non-trivial: accepted, or rejected although the first structural level is intact
		nt := o.accepted || (len(b) >= 12 && len(seed) >= 12 && bytes.Equal(b[:8], seed[:8]))
		stats.CaseIn(sub, stats.Hash(name, b), nt, func() string {
			return fmt.Sprintf("%s: %d bytes (%s), %s, %d bytes allocated", name, len(b), mutated, lab, o.alloc)
		}, name+":"+lab, mutated)
	})
}

func TestC02Font(t *testing.T) {
	runGroup(t, "font", "sfnt.Read/ReaderAt", "sfnt.Read/Reader", "header.Read")
}
func TestC02CFF(t *testing.T)  { runGroup(t, "cff", "cff.Read") }
func TestC02Cmap(t *testing.T) { runGroup(t, "cmap", "cmap.Decode") }
func TestC02Glyf(t *testing.T) { runGroup(t, "glyf", "glyf.Decode") }
func TestC02Layout(t *testing.T) {
	runGroup(t, "layout", "gtab.Read/GSUB", "gtab.Read/GPOS", "gdef.Read", "coverage.Read", "coverage.ReadSet", "classdef.Read")
}
func TestC02Small(t *testing.T) {
	runGroup(t, "small", "name.Decode", "head.Read", "hmtx.Decode", "maxp.Read", "os2.Read", "post.Read", "kern.Read")
}

// TestC02Replay re-executes one saved input (file: target name, newline, bytes).
func TestC02Replay(t *testing.T) {
	fn := os.Getenv("VERIF_REPLAY_FILE")
	if fn == "" {
		t.Skip("no replay file")
	}
	data, err := os.ReadFile(fn)
	if err != nil {
		t.Fatal(err)
	}
	i := bytes.IndexByte(data, '\n')
	if i < 0 {
		t.Fatal("malformed replay file")
	}
	tg := targetByName(string(data[:i]))
	b := data[i+1:]
	if err := tg.verdict(b, tg.run(b)); err != nil {
		t.Fatal(err)
	}
}

// TestReplayHang re-runs an in-flight input after the watchdog fired.
func TestReplayHang(t *testing.T) {
	fn := os.Getenv("VERIF_REPLAY_FILE")
	if fn == "" {
		t.Skip("no replay file")
	}
	data, err := os.ReadFile(fn)
	if err != nil {
		t.Fatal(err)
	}
	base := filepath.Base(fn) // inflight-c02-<target>.bin
	name := strings.TrimSuffix(strings.TrimPrefix(base, "inflight-c02-"), ".bin")
	for i := range targets {
		if strings.ReplaceAll(targets[i].name, "/", "_") == name {
			if err := targets[i].verdict(data, targets[i].run(data)); err != nil {
				t.Fatal(err)
			}
			return
		}
	}
	t.Skip("unknown target " + name)
}

// ---- native fuzz targets (thorough tier) --------------------------------------------------

func fuzzGroup(f *testing.F, names ...string) {
	f.Add([]byte{0, 1, 0, 0, 0, 0}, byte(0))
	f.Fuzz(func(t *testing.T, b []byte, sel byte) {
		tg := targetByName(names[int(sel)%len(names)])
		if err := tg.verdict(b, tg.run(b)); err != nil {
			t.Fatal(err)
		}
	})
}

func FuzzC02Font(f *testing.F) { fuzzGroup(f, "sfnt.Read/ReaderAt", "sfnt.Read/Reader", "header.Read") }
func FuzzC02CFF(f *testing.F)  { fuzzGroup(f, "cff.Read") }
func FuzzC02Cmap(f *testing.F) { fuzzGroup(f, "cmap.Decode") }
func FuzzC02Glyf(f *testing.F) { fuzzGroup(f, "glyf.Decode") }
func FuzzC02Gtab(f *testing.F) { fuzzGroup(f, "gtab.Read/GSUB", "gtab.Read/GPOS") }
func FuzzC02Layout(f *testing.F) {
	fuzzGroup(f, "gdef.Read", "coverage.Read", "coverage.ReadSet", "classdef.Read")
}
func FuzzC02Small(f *testing.F) {
	fuzzGroup(f, "name.Decode", "head.Read", "hmtx.Decode", "maxp.Read", "os2.Read", "post.Read", "kern.Read")
}

var fuzzGroups = map[string][]string{
	"FuzzC02Font":   {"sfnt.Read/ReaderAt", "sfnt.Read/Reader", "header.Read"},
	"FuzzC02CFF":    {"cff.Read"},
	"FuzzC02Cmap":   {"cmap.Decode"},
	"FuzzC02Glyf":   {"glyf.Decode"},
	"FuzzC02Gtab":   {"gtab.Read/GSUB", "gtab.Read/GPOS"},
	"FuzzC02Layout": {"gdef.Read", "coverage.Read", "coverage.ReadSet", "classdef.Read"},
	"FuzzC02Small":  {"name.Decode", "head.Read", "hmtx.Decode", "maxp.Read", "os2.Read", "post.Read", "kern.Read"},
}

// TestC02MakeCorpus writes seed corpora for the fuzz targets when
// VERIF_WRITE_CORPUS names a directory.
func TestC02MakeCorpus(t *testing.T) {
	dir := os.Getenv("VERIF_WRITE_CORPUS")
	if dir == "" {
		t.Skip("VERIF_WRITE_CORPUS not set")
	}
	count := map[string]int{}
	rapid.Check(t, func(t *rapid.T) {
		fz := rapid.SampledFrom([]string{"FuzzC02Font", "FuzzC02CFF", "FuzzC02Cmap", "FuzzC02Glyf", "FuzzC02Gtab", "FuzzC02Layout", "FuzzC02Small"}).Draw(t, "fuzz")
		names := fuzzGroups[fz]
		sel := rapid.IntRange(0, len(names)-1).Draw(t, "sel")
		b := seedFor(t, names[sel])
		if seedIsAliased {
			t.Skip("aliased seed")
		}
		if len(b) > 6000 || count[fz] >= 25 {
			return
		}
		d := filepath.Join(dir, fz)
		os.MkdirAll(d, 0o755)
		body := fmt.Sprintf("go test fuzz v1\n[]byte(%s)\nbyte(%s)\n", strconv.Quote(string(b)), strconv.QuoteRune(rune(sel)))
		os.WriteFile(filepath.Join(d, fmt.Sprintf("gen-%02d", count[fz])), []byte(body), 0o644)
		count[fz]++
	})
}

// TestC02Sweep: exhaustive hostile-constant sweeps over the 16-bit fields of
// small valid tables: every single field x {0, 1, 0x7FFF, 0x8000, 0xFFFF},
// and every pair of up to 48 drawn fields x {0x7FFF, 0xFFFF}^2 (counts
// multiplied by counts, counts multiplied by aliased offsets).
func sweepTable(fatalf func(string, ...any), name string, seed []byte, pick func(nf int) []int) int {
	tg := targetByName(name)
	runs := 0
	try := func(b []byte, what string) {
		runs++
		o := tg.run(b)
		if err := tg.verdict(b, o); err != nil {
			p := stats.SaveReplay(fmt.Sprintf("TestC02Replay--%s-%012x.bin", strings.NewReplacer("/", "_", ".", "_").Replace(name), stats.Hash(b)&0xffffffffffff), append([]byte(name+"\n"), b...))
			fatalf("%s: %v\n(input saved as %s)", what, err, p)
		}
	}
	b := append([]byte(nil), seed...)
	set := func(pos, v int) (old0, old1 byte) {
		old0, old1 = b[pos], b[pos+1]
		b[pos], b[pos+1] = byte(v>>8), byte(v)
		return
	}
	nf := len(b) / 2
	get := func(i int) int { return int(seed[2*i])<<8 | int(seed[2*i+1]) }
	for i := 0; i < nf; i++ {
		vals := []int{0, 1, 0x7FFF, 0x8000, 0xFFFF}
		// values that stand in a relation to a neighbouring field (the start
		// of a range equal to the end of the previous one, a count one above
		// or below an index, ...): the fields one to three places away (a
		// record of these tables has at most three fields), and those +-1
		for _, d := range []int{-3, -2, -1, 1, 2, 3} {
			if j := i + d; j >= 0 && j < nf {
				v := get(j)
				vals = append(vals, v, (v+1)&0xFFFF, (v-1)&0xFFFF)
			}
		}
		done := map[int]bool{get(i): true}
		for _, v := range vals {
			if done[v] {
				continue
			}
			done[v] = true
			o0, o1 := set(2*i, v)
			try(b, fmt.Sprintf("field %d = %#x", i, v))
			b[2*i], b[2*i+1] = o0, o1
		}
	}
	fields := pick(nf)
	for x := 0; x < len(fields); x++ {
		for y := x + 1; y < len(fields); y++ {
			for _, v := range [][2]int{{0xFFFF, 0xFFFF}, {0x7FFF, 0x7FFF}, {0xFFFF, 0}, {0, 0xFFFF}} {
				a0, a1 := set(2*fields[x], v[0])
				c0, c1 := set(2*fields[y], v[1])
				try(b, fmt.Sprintf("fields %d,%d = %#x,%#x", fields[x], fields[y], v[0], v[1]))
				b[2*fields[x]], b[2*fields[x]+1] = a0, a1
				b[2*fields[y]], b[2*fields[y]+1] = c0, c1
			}
		}
	}
	return runs
}

// TestC02SweepDegenerate sweeps the handcrafted GPOS tables whose records
// have size zero completely (all single fields, all pairs of fields).
func TestC02SweepDegenerate(t *testing.T) {
	seen := map[uint64]bool{}
	rapid.Check(t, func(t *rapid.T) {
		seed := seedFor(t, "gpos-degenerate")
		h := stats.Hash(seed)
		if seen[h] {
			return
		}
		seen[h] = true
		runs := sweepTable(t.Fatalf, "gtab.Read/GPOS", seed, func(nf int) []int {
			all := make([]int, nf)
			for i := range all {
				all[i] = i
			}
			return all
		})
		stats.LabelN("sweep-degenerate", "decoder-calls", int64(runs))
		stats.CaseIn("sweep-degenerate", h, true, func() string {
			return fmt.Sprintf("%d-byte GPOS table with zero-size records: %d single-field and pair mutations", len(seed), runs)
		})
	})
}

// TestC02SweepTiny sweeps coverage and class definition tables (a few dozen
// bytes each) for all three of their decoders: complete single-field and
// pair sweeps are cheap there, so every case is swept for every decoder.
func TestC02SweepTiny(t *testing.T) {
	seen := map[uint64]bool{}
	rapid.Check(t, func(t *rapid.T) {
		kind := rapid.SampledFrom([]string{"coverage.Read", "classdef.Read"}).Draw(t, "kind")
		seed := seedFor(t, kind)
		if len(seed) > 120 || len(seed) < 4 {
			t.Skip("not tiny")
		}
		h := stats.Hash(kind, seed)
		if seen[h] {
			return
		}
		seen[h] = true
		decoders := []string{"classdef.Read"}
		if kind == "coverage.Read" {
			decoders = []string{"coverage.Read", "coverage.ReadSet"}
		}
		runs := 0
		for _, name := range decoders {
			runs += sweepTable(t.Fatalf, name, seed, func(nf int) []int {
				// pairs: all fields of small tables, else the header fields and the tail
				var ff []int
				for i := 0; i < nf; i++ {
					if nf <= 20 || i < 6 || i >= nf-14 {
						ff = append(ff, i)
					}
				}
				return ff
			})
		}
		stats.LabelN("sweep-tiny", "decoder-calls", int64(runs))
		stats.Label("sweep-tiny", fmt.Sprintf("%s:format%d", kind, int(seed[1])))
		top := "low-glyphs"
		if len(seed) >= 4 && seed[len(seed)-2] == 0xFF {
			top = "near-top-of-glyph-range"
		}
		stats.CaseIn("sweep-tiny", h, true, func() string {
			return fmt.Sprintf("%s: %d-byte table, %d single-field and pair mutations", kind, len(seed), runs)
		}, kind, top)
	})
}

func TestC02Sweep(t *testing.T) {
	names := []string{"gtab.Read/GSUB", "gtab.Read/GPOS", "gpos-degenerate", "gdef.Read", "coverage.Read", "coverage.ReadSet", "classdef.Read", "cmap.Decode", "kern.Read", "post.Read", "name.Decode", "hmtx.Decode"}
	rapid.Check(t, func(t *rapid.T) {
		name := rapid.SampledFrom(names).Draw(t, "target")
		seed := seedFor(t, name)
		if name == "gpos-degenerate" {
			name = "gtab.Read/GPOS"
		}
		if len(seed) > 600 || len(seed) < 4 || seedIsAliased {
			t.Skip("seed too large for a sweep")
		}
		runs := sweepTable(t.Fatalf, name, seed, func(nf int) []int {
			var fields []int
			if nf <= 48 {
				for i := 0; i < nf; i++ {
					fields = append(fields, i)
				}
				return fields
			}
			seen := map[int]bool{}
			for len(fields) < 48 {
				f := rapid.IntRange(0, nf-1).Draw(t, "field")
				if !seen[f] {
					seen[f] = true
					fields = append(fields, f)
				}
			}
			return fields
		})
		stats.LabelN("sweep", "decoder-calls", int64(runs))
		stats.CaseIn("sweep", stats.Hash(name, seed), true, func() string {
			return fmt.Sprintf("%s: %d-byte valid table, %d single-field and pair mutations", name, len(seed), runs)
		}, name)
	})
}
