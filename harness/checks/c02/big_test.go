package c02

import (
	"bytes"
	"encoding/binary"
	"fmt"
	"testing"

	"pgregory.net/rapid"

	"seehuhn.de/go/postscript/type1"
	"seehuhn.de/go/sfnt/cff"
	"seehuhn.de/go/sfnt/cmap"
	"seehuhn.de/go/sfnt/glyph"
	"verif/harness/ref/refcff"
	"verif/harness/ref/refname"
	"verif/harness/ref/refsfnt"
	"verif/harness/stats"
)

// TestC02Big feeds the decoders *large* well-formed inputs (64 KiB to a few
// MiB: tens of thousands of groups, segments, records, names, pairs, glyphs,
// tables) and light mutants of them.  The bounds are the same as everywhere
// (no panic, allocation <= 64 MiB + 1 KiB/byte, thread CPU time <= 2 s + 20
// us/byte); what this family adds is the regime in which work that grows
// faster than the input - a quadratic duplicate check, a re-scan per record,
// a per-entry allocation of the whole remainder - becomes visible at all.
// Bulk content is expanded from one drawn 64-bit value by a fixed mixing
// function, so a case stays a pure function of its draws.
func TestC02Big(t *testing.T) {
	rapid.Check(t, func(t *rapid.T) {
		kind := rapid.SampledFrom([]string{"cmap12", "cmap4", "cmap-many-subtables", "name", "post", "kern", "kern-overlap", "gdef-order", "count-zero", "glyf", "hmtx",
			"cff-glyphs", "cff-fdselect", "cff-strings", "container", "coverage", "classdef"}).Draw(t, "kind")
		scale := rapid.SampledFrom([]int{1, 2, 4, 8, 16, 32, 64}).Draw(t, "scale")
		fs := &bigFiller{s: rapid.Uint64().Draw(t, "fill")}
		name, b := buildBig(t, kind, scale, fs)
		if b == nil {
			t.Skip("not built")
		}
		seed := b
		if rapid.IntRange(0, 2).Draw(t, "mutate") == 0 {
			b = mutateBytes(t, b)
		}
		tg := targetByName(name)
		o := tg.run(b)
		if err := tg.verdict(b, o); err != nil {
			p := stats.SaveReplay(fmt.Sprintf("TestC02Replay--%s-%012x.bin", replayName(name), stats.Hash(b)&0xffffffffffff), append([]byte(name+"\n"), b...))
			t.Fatalf("%v\n(input saved as %s)", err, p)
		}
		lab := "rejected"
		if o.accepted {
			lab = "accepted"
		}
		size := "64KiB-"
		switch {
		case len(b) >= 1<<20:
			size = "1MiB+"
		case len(b) >= 256<<10:
			size = "256KiB-1MiB"
		case len(b) >= 64<<10:
			size = "64-256KiB"
		}
		stats.CaseIn("big", stats.Hash(name, b), o.accepted || bytes.Equal(b, seed), func() string {
			return fmt.Sprintf("%s: big %s input of %d bytes, %s, %s CPU, %d bytes allocated", name, kind, len(b), lab, o.cpu+o.sweepCPU, o.alloc+o.sweepAlloc)
		}, "big:"+kind, "big:"+kind+":"+lab, "size:"+size)
	})
}

func replayName(name string) string {
	r := []byte(name)
	for i, c := range r {
		if c == '/' || c == '.' {
			r[i] = '_'
		}
	}
	return string(r)
}

type bigFiller struct{ s uint64 }

func (f *bigFiller) next() uint64 {
	f.s += 0x9E3779B97F4A7C15
	z := f.s
	z = (z ^ (z >> 30)) * 0xBF58476D1CE4E5B9
	z = (z ^ (z >> 27)) * 0x94D049BB133111EB
	return z ^ (z >> 31)
}
func (f *bigFiller) intn(n int) int { return int(f.next() % uint64(n)) }

// buildBig returns the target name and the input.
func buildBig(t *rapid.T, kind string, scale int, fs *bigFiller) (string, []byte) {
	be := binary.BigEndian
	switch kind {
	case "cmap12":
		// a format 12 subtable with 5000*scale groups of 1-3 codes
		n := 5000 * scale
		sub := make([]byte, 16, 16+12*n)
		sub[1] = 12
		be.PutUint32(sub[4:], uint32(16+12*n))
		be.PutUint32(sub[12:], uint32(n))
		code := uint32(32)
		for i := 0; i < n; i++ {
			sz := uint32(1 + fs.intn(3))
			sub = be.AppendUint32(sub, code)
			sub = be.AppendUint32(sub, code+sz-1)
			sub = be.AppendUint32(sub, uint32(1+fs.intn(60000)))
			code += sz + uint32(fs.intn(3))
		}
		return "cmap.Decode", cmapTable([]cmapSub{{3, 10, sub}, {0, 4, sub}})
	case "cmap4":
		// a format 4 subtable with up to 8000 one-code segments (the format's
		// length field ends at 64 KiB)
		n := min(500*scale, 8000)
		segX2 := 2 * (n + 1)
		sub := make([]byte, 14)
		be.PutUint16(sub[0:], 4)
		be.PutUint16(sub[2:], uint16(16+8*(n+1)))
		be.PutUint16(sub[6:], uint16(segX2))
		var ends, starts, deltas, ros []byte
		code := 33
		for i := 0; i < n; i++ {
			ends = be.AppendUint16(ends, uint16(code))
			starts = be.AppendUint16(starts, uint16(code))
			deltas = be.AppendUint16(deltas, uint16(fs.intn(65536)))
			ros = be.AppendUint16(ros, 0)
			code += 2 + fs.intn(5)
		}
		ends = be.AppendUint16(ends, 0xFFFF)
		starts = be.AppendUint16(starts, 0xFFFF)
		deltas = be.AppendUint16(deltas, 1)
		ros = be.AppendUint16(ros, 0)
		sub = append(sub, ends...)
		sub = append(sub, 0, 0)
		sub = append(sub, starts...)
		sub = append(sub, deltas...)
		sub = append(sub, ros...)
		return "cmap.Decode", cmapTable([]cmapSub{{3, 1, sub}, {0, 3, sub}})
	case "cmap-many-subtables":
		// hundreds of encoding records (distinct keys) sharing a few subtables
		n := 200 * scale
		var subs []cmapSub
		var g [256]byte
		for i := range g {
			g[i] = byte(fs.intn(256))
		}
		f0 := append([]byte{0, 0, 1, 6, 0, 0}, g[:]...)
		for i := 0; i < n; i++ {
			subs = append(subs, cmapSub{uint16(4 + i/65536), uint16(i % 65536), f0})
		}
		return "cmap.Decode", cmapTable(subs)
	case "name":
		// thousands of name records (Windows, many languages and name ids)
		n := 400 * scale
		var recs []refname.RawRecord
		for i := 0; i < n; i++ {
			recs = append(recs, refname.RawRecord{Platform: 3, Encoding: 1, Language: uint16(0x401 + i/200*0x400%0xF000), NameID: uint16(i % 200),
				Data: refname.EncodeUTF16BE(fmt.Sprintf("s%d", fs.intn(50))), Share: fs.intn(2) == 0})
		}
		d, err := refname.Build(0, recs, nil, 0)
		if err != nil {
			return "", nil
		}
		return "name.Decode", d
	case "post":
		// format 2 with up to 65535 glyphs, names of the font's own
		n := min(4000*scale, 65535)
		p := &refname.Post{Version: 0x00020000}
		for i := 0; i < n; i++ {
			if i < 258 {
				p.Index = append(p.Index, uint16(i))
				continue
			}
			p.Index = append(p.Index, uint16(258+len(p.Strings)))
			p.Strings = append(p.Strings, fmt.Sprintf("glyph%05d", i))
		}
		return "post.Read", refname.BuildPost(p)
	case "kern":
		// 1-3 format 0 subtables with thousands of pairs
		nsub := 1 + fs.intn(3)
		out := []byte{0, 0, 0, byte(nsub)}
		for s := 0; s < nsub; s++ {
			np := min(600*scale, 10900)
			sub := make([]byte, 14)
			be.PutUint16(sub[2:], uint16(14+6*np))
			be.PutUint16(sub[4:], 1)
			be.PutUint16(sub[6:], uint16(np))
			l, r := 0, 0
			for i := 0; i < np; i++ {
				r += 1 + fs.intn(3)
				if r > 60000 {
					l, r = l+1, fs.intn(3)
				}
				sub = be.AppendUint16(sub, uint16(l))
				sub = be.AppendUint16(sub, uint16(r))
				sub = be.AppendUint16(sub, uint16(fs.intn(400)))
			}
			out = append(out, sub...)
		}
		return "kern.Read", out
	case "kern-overlap":
		// thousands of format 0 subtables whose pair counts reach far
		// beyond their lengths, so that every subtable's pairs run over
		// the subtables that follow (a reader that follows the counts does
		// quadratic work)
		nsub := min(1000*scale, 60000)
		np := min(1000*scale+fs.intn(500), 65535)
		length := 14 + 6*fs.intn(3)
		return "kern.Read", overlappingKern(nsub, np, length)
	case "gdef-order":
		// a well-formed GDEF 1.2 table with two large irregular class tables
		// and the (empty) mark glyph sets table in front of them: every
		// offset fits, in this order
		return "gdef.Read", gdefSetsFirst(min(500*scale+fs.intn(100), 30000))
	case "count-zero":
		// counts that include the first glyph, with the invalid value 0, in
		// thousands of four-byte records in front of 128 KiB of glyph ids
		// (a reader that computes count-1 in 16 bits reads 65535 of them)
		n := min(150*scale, 9000)
		if fs.intn(2) == 0 {
			return "gtab.Read/GSUB", zeroComponentLigatures(n)
		}
		return "gtab.Read/GSUB", zeroInputChainRules(n, 1+fs.intn(2))
	case "glyf":
		// thousands of small simple glyphs (and empty ones), long loca
		n := min(4000*scale, 65535)
		var glyf, loca []byte
		for i := 0; i < n; i++ {
			loca = be.AppendUint32(loca, uint32(len(glyf)))
			if fs.intn(4) == 0 {
				continue
			}
			glyf = append(glyf, hugeSimpleGlyph(1+fs.intn(6), 1, 255)...)
		}
		loca = be.AppendUint32(loca, uint32(len(glyf)))
		out := []byte{1, 0, 0}
		// the target's two-byte loca length cannot express this: use the
		// whole-font reader instead
		_ = out
		return "sfnt.Read/ReaderAt", bigTrueType(n, glyf, loca)
	case "hmtx":
		n := min(4000*scale, 65535)
		return "sfnt.Read/Reader", bigTrueType(n, nil, make([]byte, 4*(n+1)))
	case "cff-glyphs":
		// tens of thousands of one-byte charstrings (CID-keyed: no names)
		n := min(4000*scale, 65535)
		spec := refcff.Spec{FontName: "Big", CID: true, FDs: []refcff.FDSpec{{}}}
		for i := 0; i < n; i++ {
			spec.CharStrings = append(spec.CharStrings, []byte{14})
			spec.FDSelect = append(spec.FDSelect, 0)
		}
		var out []byte
		func() {
			defer func() { recover() }()
			out = refcff.Build(spec)
		}()
		return "cff.Read", out
	case "cff-fdselect":
		// FDSelect format 3 with a range for (almost) every glyph
		n := min(2000*scale, 30000)
		spec := refcff.Spec{FontName: "Big", CID: true, FDs: []refcff.FDSpec{{}, {DefaultWidthX: 500}}, FDSelectFormat: 3}
		for i := 0; i < n; i++ {
			spec.CharStrings = append(spec.CharStrings, []byte{14})
			spec.FDSelect = append(spec.FDSelect, i%2)
		}
		var out []byte
		func() {
			defer func() { recover() }()
			out = refcff.Build(spec)
		}()
		return "cff.Read", out
	case "cff-strings":
		// a simple font: every glyph has a name of its own (String INDEX with
		// thousands of entries)
		// (the harness's small CFF writer only knows predefined charsets:
		// this one input family is written by the library itself)
		n := min(2000*scale, 60000)
		info := &type1.FontInfo{FontName: "Big", FontMatrix: [6]float64{0.001, 0, 0, 0.001, 0, 0}}
		o := &cff.Outlines{Private: []*type1.PrivateDict{{BlueScale: 0.039625, BlueShift: 7, BlueFuzz: 1}}, FDSelect: func(glyph.ID) int { return 0 }}
		for i := 0; i < n; i++ {
			name := fmt.Sprintf("custom%d", i)
			if i == 0 {
				name = ".notdef"
			}
			o.Glyphs = append(o.Glyphs, cff.NewGlyph(name, float64(100+i%900)))
		}
		var buf bytes.Buffer
		if err := (&cff.Font{FontInfo: info, Outlines: o}).Write(&buf); err != nil {
			return "", nil
		}
		return "cff.Read", buf.Bytes()
	case "container":
		// a directory with thousands of (tiny) tables
		n := 500 * scale
		tables := map[string][]byte{}
		for i := 0; i < n; i++ {
			tag := fmt.Sprintf("%c%c%c%c", 'A'+i%26, 'a'+i/26%26, 'a'+i/676%26, '0'+i/17576%10)
			tables[tag] = []byte{byte(i), byte(i >> 8)}
		}
		return "header.Read", refsfnt.Assemble(0x00010000, tables)
	case "coverage":
		// format 2 with thousands of short ranges
		n := min(1000*scale, 10000)
		out := []byte{0, 2, byte(n >> 8), byte(n)}
		g, idx := 0, 0
		for i := 0; i < n; i++ {
			sz := 1 + fs.intn(3)
			out = be.AppendUint16(out, uint16(g))
			out = be.AppendUint16(out, uint16(g+sz-1))
			out = be.AppendUint16(out, uint16(idx))
			idx += sz
			g += sz + 1 + fs.intn(2)
		}
		return "coverage.Read", out
	default: // classdef format 2 with thousands of ranges
		n := min(1000*scale, 10000)
		out := []byte{0, 2, byte(n >> 8), byte(n)}
		g := 0
		for i := 0; i < n; i++ {
			sz := 1 + fs.intn(3)
			out = be.AppendUint16(out, uint16(g))
			out = be.AppendUint16(out, uint16(g+sz-1))
			out = be.AppendUint16(out, uint16(1+fs.intn(50)))
			g += sz + fs.intn(2)
		}
		return "classdef.Read", out
	}
}

type cmapSub struct {
	platform, encoding uint16
	data               []byte
}

// cmapTable assembles a cmap table; equal subtable bytes are stored once.
func cmapTable(subs []cmapSub) []byte {
	out := make([]byte, 4+8*len(subs))
	binary.BigEndian.PutUint16(out[2:], uint16(len(subs)))
	at := map[string]int{}
	for i, s := range subs {
		off, ok := at[string(s.data)]
		if !ok {
			off = len(out)
			at[string(s.data)] = off
			out = append(out, s.data...)
		}
		binary.BigEndian.PutUint16(out[4+8*i:], s.platform)
		binary.BigEndian.PutUint16(out[6+8*i:], s.encoding)
		binary.BigEndian.PutUint32(out[8+8*i:], uint32(off))
	}
	_ = cmap.Table{}
	return out
}

// bigTrueType wraps glyf/loca data (glyf == nil: all glyphs empty) into a
// minimal TrueType file with numGlyphs glyphs and a full-length hmtx table.
func bigTrueType(numGlyphs int, glyf, loca []byte) []byte {
	be := binary.BigEndian
	head := make([]byte, 54)
	be.PutUint32(head[0:], 0x00010000)
	be.PutUint32(head[12:], 0x5F0F3CF5)
	be.PutUint16(head[18:], 1000)
	be.PutUint16(head[50:], 1) // long loca
	maxp := make([]byte, 32)
	be.PutUint32(maxp[0:], 0x00010000)
	be.PutUint16(maxp[4:], uint16(numGlyphs))
	hhea := make([]byte, 36)
	be.PutUint32(hhea[0:], 0x00010000)
	be.PutUint16(hhea[34:], uint16(numGlyphs))
	hmtx := make([]byte, 4*numGlyphs)
	for i := 0; i < numGlyphs; i++ {
		be.PutUint16(hmtx[4*i:], uint16(500+i%7))
	}
	if glyf == nil {
		glyf = []byte{}
	}
	return refsfnt.Assemble(0x00010000, map[string][]byte{"head": head, "maxp": maxp, "hhea": hhea, "hmtx": hmtx, "glyf": glyf, "loca": loca})
}

// overlappingKern is a kern table of s format 0 subtables of the given length
// (14 + 6 x a few pairs) that claim k pairs each, followed by enough bytes for
// the last of them.
func overlappingKern(s, k, length int) []byte {
	b := []byte{0, 0}
	b = be16(b, s)
	sub := func(pairs int) {
		b = append(b, 0, 0)
		b = be16(b, length)
		b = append(b, 0, 1)
		b = be16(b, pairs)
		b = append(b, make([]byte, length-8)...)
	}
	for i := 0; i < s; i++ {
		sub(k)
	}
	for len(b) < 4+length*s+6*k+14 {
		sub(0)
	}
	return b
}

// zeroComponentLigatures is a GSUB table with one ligature substitution
// subtable: one ligature set of n ligatures (distinct records of four bytes)
// whose component count is 0 - an invalid value; the count includes the
// first glyph - followed by 128 KiB of glyph ids.
func zeroComponentLigatures(n int) []byte {
	s := []byte{0, 1}
	s = be16(s, 8) // coverage
	s = be16(s, 1) // one ligature set
	s = be16(s, 14)
	s = append(s, 0, 1, 0, 1, 0, 5) // coverage: glyph 5
	set := be16(nil, n)
	for i := 0; i < n; i++ {
		set = be16(set, 2+2*n+4*i)
	}
	for i := 0; i < n; i++ {
		set = append(set, 0, 7, 0, 0) // ligature glyph 7, componentCount 0
	}
	s = append(s, set...)
	s = append(s, make([]byte, 2*65535)...)
	return layoutWith(4, s)
}

// zeroInputChainRules is a GSUB table with one chained context subtable of
// format 1 (glyphs) or 2 (classes): one rule set of n rules (distinct records
// of four bytes: no backtrack, input glyph count 0 - invalid), followed by
// 128 KiB of zeros.
func zeroInputChainRules(n, format int) []byte {
	var s []byte
	setOff := 14
	if format == 1 {
		s = []byte{0, 1}
		s = be16(s, 8) // coverage
		s = be16(s, 1) // one rule set
		s = be16(s, setOff)
		s = append(s, 0, 1, 0, 1, 0, 5) // coverage: glyph 5
	} else {
		setOff = 30
		s = []byte{0, 2}
		s = be16(s, 16) // coverage
		s = be16(s, 22) // backtrack, input, lookahead class definitions
		s = be16(s, 22)
		s = be16(s, 22)
		s = be16(s, 2) // two class sets: NULL, one set
		s = be16(s, 0)
		s = be16(s, setOff)
		s = append(s, 0, 1, 0, 1, 0, 5)       // coverage: glyph 5
		s = append(s, 0, 1, 0, 5, 0, 1, 0, 1) // class definition: glyph 5 has class 1
	}
	set := be16(nil, n)
	for i := 0; i < n; i++ {
		set = be16(set, 2+2*n+4*i)
	}
	for i := 0; i < n; i++ {
		set = append(set, 0, 0, 0, 0) // backtrackGlyphCount 0, inputGlyphCount 0
	}
	s = append(s, set...)
	s = append(s, make([]byte, 2*65535+16)...)
	return layoutWith(6, s)
}
