// C02: decoders are total on untrusted bytes: value or error, never panic or hang.
package c02

import (
	"bytes"
	"fmt"
	"io"
	"os"
	"strings"
	"sync"
	"testing"
	"time"

	"seehuhn.de/go/sfnt"
	"seehuhn.de/go/sfnt/cff"
	"seehuhn.de/go/sfnt/cmap"
	"seehuhn.de/go/sfnt/glyf"
	"seehuhn.de/go/sfnt/glyph"
	"seehuhn.de/go/sfnt/head"
	"seehuhn.de/go/sfnt/header"
	"seehuhn.de/go/sfnt/hmtx"
	"seehuhn.de/go/sfnt/kern"
	"seehuhn.de/go/sfnt/maxp"
	"seehuhn.de/go/sfnt/name"
	"seehuhn.de/go/sfnt/opentype/classdef"
	"seehuhn.de/go/sfnt/opentype/coverage"
	"seehuhn.de/go/sfnt/opentype/gdef"
	"seehuhn.de/go/sfnt/opentype/gtab"
	"seehuhn.de/go/sfnt/os2"
	"seehuhn.de/go/sfnt/parser"
	"seehuhn.de/go/sfnt/post"
	"verif/harness/guard"
	"verif/harness/stats"
)

func TestMain(m *testing.M) { stats.MainExit(m) }

// allocation bound (DESIGN.md §4 C02): A0 + A1*len(b)
const (
	allocA0 = 64 << 20
	allocA1 = 1 << 10
)

// outcome of one decoder call
type outcome struct {
	accepted   bool
	panic      *guard.Panic
	phase      string // "decode" or "sweep"
	alloc      uint64
	sweepAlloc uint64        // allocated by the accessor sweep
	cpu        time.Duration // CPU time of the decoding thread (decode phase)
	sweepCPU   time.Duration
}

// The time clause.  Wall-clock time is only used by the hang watchdog (30 s +
// 1 s/KiB, two stages); what is bounded here is the CPU time of the thread
// that runs the decoder, which does not grow when the machine is busy.  The
// constants are far above anything the unchanged tree needs (the evidence
// carries the largest ratio observed): they exist to catch work that grows
// faster than the input (quadratic re-scanning, call trees that escape the
// subroutine budget), not to rate speed.
const (
	cpuC0 = 2 * time.Second
	cpuC1 = 20 * time.Microsecond // per input byte
)

func cpuLimit(n int) time.Duration { return cpuC0 + time.Duration(n)*cpuC1 }

var cpuWorst struct {
	mu    sync.Mutex
	ratio float64
}

func noteCPU(tgName string, n int, d time.Duration) {
	r := float64(d) / float64(cpuLimit(n))
	cpuWorst.mu.Lock()
	defer cpuWorst.mu.Unlock()
	if r > cpuWorst.ratio {
		cpuWorst.ratio = r
		stats.Note("cpu-bound", fmt.Sprintf("thread CPU time <= 2 s + 20 us/byte; largest share of the bound used by one call in this run: %.4f (%s, %d bytes, %s)", r, tgName, n, d))
	}
}

// target is one decoder of the property's list with its accessor sweep.
// decode returns a sweep function if the input was accepted.
type target struct {
	name   string
	decode func(b []byte) (sweep func(), err error)
}

// onlyReader hides ReaderAt so that sfnt.Read takes the streaming path.
type onlyReader struct{ r io.Reader }

func (o onlyReader) Read(p []byte) (int, error) { return o.r.Read(p) }

func probeRunes(st cmap.Subtable) {
	lo, hi := st.CodeRange()
	for _, r := range []rune{0, lo, hi, lo - 1, hi + 1, 'A', 0x7F, 0x80, 0xFF, 0x100, 0xFFFF, 0x10000, 0x10FFFF, -1} {
		st.Lookup(r)
	}
	for i := rune(0); i < 64; i++ {
		st.Lookup(lo + (hi-lo)*i/64)
	}
}

func sweepCmapTable(tbl cmap.Table) {
	noLang := 0
	for key := range tbl {
		if st, err := tbl.Get(key); err == nil && st != nil {
			probeRunes(st)
			reencoding(func() { st.Encode(key.Language) })
		}
		// (GetNoLang sorts all keys on every call: asked for a bounded number
		// of keys, so that the sweep as a whole stays linear in the table)
		if noLang < 16 {
			tbl.GetNoLang(key.PlatformID, key.EncodingID)
			noLang++
		}
	}
	if st, err := tbl.GetBest(); err == nil && st != nil {
		probeRunes(st)
	}
	tbl.Encode()
}

func sweepGlyphs(gg glyf.Glyphs) {
	for _, g := range gg {
		if g == nil {
			continue
		}
		g.Components()
		if sg, ok := g.Data.(glyf.SimpleGlyph); ok {
			sg.Decode()
		}
	}
	gg.Encode()
}

func sweepFont(f *sfnt.Font) {
	n := f.NumGlyphs()
	f.Widths()
	f.WidthsPDF()
	f.WidthsMapPDF()
	f.GlyphBBoxes()
	f.FontBBox()
	f.FontBBoxPDF()
	f.IsFixedPitch()
	f.BuiltinEncoding()
	f.GetFontInfo()
	f.PostScriptName()
	f.FullName()
	for gid := 0; gid < n; gid++ {
		g := glyph.ID(gid)
		f.GlyphWidth(g)
		f.GlyphWidthPDF(g)
		f.GlyphBBox(g)
		f.Outlines.GlyphBBoxPDF(f.FontMatrix, g)
		f.GlyphName(g)
	}
	switch o := f.Outlines.(type) {
	case *glyf.Outlines:
		sweepGlyphs(o.Glyphs)
	case *cff.Outlines:
		for gid := 0; gid < n; gid++ {
			o.FDSelect(glyph.ID(gid))
		}
	}
	sweepCmapTable(f.CMapTable)
	f.Write(io.Discard)
	if f.IsGlyf() {
		f.WriteTrueTypePDF(io.Discard)
	} else {
		f.WriteOpenTypeCFFPDF(io.Discard)
		f.AsCFF().Write(io.Discard)
	}
}

var targets = []target{
	{"sfnt.Read/ReaderAt", func(b []byte) (func(), error) {
		f, err := sfnt.Read(bytes.NewReader(b))
		if err != nil {
			return nil, err
		}
		return func() { sweepFont(f) }, nil
	}},
	{"sfnt.Read/Reader", func(b []byte) (func(), error) {
		f, err := sfnt.Read(onlyReader{bytes.NewReader(b)})
		if err != nil {
			return nil, err
		}
		return func() { sweepFont(f) }, nil
	}},
	{"header.Read", func(b []byte) (func(), error) {
		info, err := header.Read(bytes.NewReader(b))
		if err != nil {
			return nil, err
		}
		return func() {
			for name := range info.Toc {
				info.Has(name)
				info.ReadTableBytes(bytes.NewReader(b), name)
			}
		}, nil
	}},
	{"cff.Read", func(b []byte) (func(), error) {
		f, err := cff.Read(bytes.NewReader(b))
		if err != nil {
			return nil, err
		}
		return func() {
			f.Widths()
			f.WidthsPDF()
			f.WidthsMapPDF()
			f.FontBBoxPDF()
			f.BuiltinEncoding()
			for gid := range f.Glyphs {
				f.FDSelect(glyph.ID(gid))
				f.GlyphWidthPDF(glyph.ID(gid))
				f.Outlines.GlyphBBoxPDF(f.FontInfo.FontMatrix, glyph.ID(gid))
				f.Glyphs[gid].Extent()
			}
			f.Write(io.Discard)
		}, nil
	}},
	{"cmap.Decode", func(b []byte) (func(), error) {
		tbl, err := cmap.Decode(b)
		if err != nil {
			return nil, err
		}
		return func() { sweepCmapTable(tbl) }, nil
	}},
	{"glyf.Decode", func(b []byte) (func(), error) {
		// first byte selects the loca format, next two the loca length
		if len(b) < 3 {
			return nil, io.ErrUnexpectedEOF
		}
		format := int16(b[0] & 1)
		ll := int(b[1])<<8 | int(b[2])
		b = b[3:]
		if ll > len(b) {
			ll = len(b)
		}
		gg, err := glyf.Decode(&glyf.Encoded{LocaData: b[:ll], GlyfData: b[ll:], LocaFormat: format})
		if err != nil {
			return nil, err
		}
		return func() { sweepGlyphs(gg) }, nil
	}},
	{"gtab.Read/GSUB", func(b []byte) (func(), error) { return gtabTarget(b, gtab.TypeGsub) }},
	{"gtab.Read/GPOS", func(b []byte) (func(), error) { return gtabTarget(b, gtab.TypeGpos) }},
	{"gdef.Read", func(b []byte) (func(), error) {
		g, err := gdef.Read(bytes.NewReader(b))
		if err != nil {
			return nil, err
		}
		return func() {
			g.IsMark(0)
			g.IsMark(0xFFFF)
			g.Encode()
		}, nil
	}},
	{"coverage.Read", func(b []byte) (func(), error) {
		c, err := coverage.Read(parser.New(bytes.NewReader(b)), 0)
		if err != nil {
			return nil, err
		}
		return func() { c.Glyphs(); c.Contains(0); c.ToSet(); c.EncodeLen(); c.Encode() }, nil
	}},
	{"coverage.ReadSet", func(b []byte) (func(), error) {
		c, err := coverage.ReadSet(parser.New(bytes.NewReader(b)), 0)
		if err != nil {
			return nil, err
		}
		return func() { c.Glyphs(); t := c.ToTable(); t.Encode() }, nil
	}},
	{"classdef.Read", func(b []byte) (func(), error) {
		c, err := classdef.Read(parser.New(bytes.NewReader(b)), 0)
		if err != nil {
			return nil, err
		}
		return func() { c.NumClasses(); c.Glyphs(); c.AppendLen(); c.Append(nil) }, nil
	}},
	{"name.Decode", func(b []byte) (func(), error) {
		info, err := name.Decode(b)
		if err != nil {
			return nil, err
		}
		return func() { info.Encode(1) }, nil
	}},
	{"head.Read", func(b []byte) (func(), error) {
		info, err := head.Read(bytes.NewReader(b))
		if err != nil {
			return nil, err
		}
		return func() { info.Encode() }, nil
	}},
	{"hmtx.Decode", func(b []byte) (func(), error) {
		// first two bytes: length of the hhea part
		if len(b) < 2 {
			return nil, io.ErrUnexpectedEOF
		}
		hl := int(b[0])<<8 | int(b[1])
		b = b[2:]
		if hl > len(b) {
			hl = len(b)
		}
		info, err := hmtx.Decode(b[:hl], b[hl:])
		if err != nil {
			return nil, err
		}
		return func() { info.Encode() }, nil
	}},
	{"maxp.Read", func(b []byte) (func(), error) {
		info, err := maxp.Read(bytes.NewReader(b))
		if err != nil {
			return nil, err
		}
		return func() { info.Encode() }, nil
	}},
	{"os2.Read", func(b []byte) (func(), error) {
		info, err := os2.Read(bytes.NewReader(b))
		if err != nil {
			return nil, err
		}
		return func() { info.Encode() }, nil
	}},
	{"post.Read", func(b []byte) (func(), error) {
		info, err := post.Read(bytes.NewReader(b))
		if err != nil {
			return nil, err
		}
		return func() { info.Encode() }, nil
	}},
	{"kern.Read", func(b []byte) (func(), error) {
		info, err := kern.Read(bytes.NewReader(b))
		if err != nil {
			return nil, err
		}
		return func() { info.Encode() }, nil
	}},
}

func gtabTarget(b []byte, tp gtab.Type) (func(), error) {
	info, err := gtab.Read(bytes.NewReader(b), tp)
	if err != nil {
		return nil, err
	}
	return func() {
		info.FindLookups(langEnglish, gtab.GsubDefaultFeatures)
		info.FindLookups(langEnglish, nil)
		info.Encode()
	}, nil
}

func targetByName(name string) *target {
	for i := range targets {
		if targets[i].name == name {
			return &targets[i]
		}
	}
	panic("no target " + name)
}

// reencoding runs a re-encoding step of an accessor sweep.  The property
// bounds the time and memory of the decoders (the lazy ones included), and of
// re-encoding it only says "without a panic": the CPU time and the
// allocations of fn are taken out of the sweep's account (Format4.Encode is
// quadratic in the number of irregular mappings, which is an observation,
// not a violation of C02); a panic in fn is a panic of the sweep.
func reencoding(fn func()) {
	var cpu time.Duration
	alloc := guard.Alloc(func() {
		cpu = guard.CPU(fn)
	})
	reencCPU += cpu
	reencAlloc += alloc
}

var (
	reencCPU   time.Duration
	reencAlloc uint64
)

// run executes one target on one input with every guard of the property.
func (tg *target) run(b []byte) outcome {
	var out outcome
	var sweep func()
	out.phase = "decode"
	inflight(tg.name, b)
	guard.Watch("c02-"+strings.ReplaceAll(tg.name, "/", "_"), b, guard.HangLimit(len(b)), func() {
		out.alloc = guard.Alloc(func() {
			out.cpu = guard.CPU(func() {
				out.panic = guard.Try(func() {
					var err error
					sweep, err = tg.decode(b)
					out.accepted = err == nil
				})
			})
		})
		if out.panic == nil && sweep != nil {
			out.phase = "sweep"
			// the lazy accessors decode too (cmap subtables, simple glyphs):
			// they are held to the same bound as the decoder itself
			reencCPU, reencAlloc = 0, 0
			out.sweepAlloc = guard.Alloc(func() {
				out.sweepCPU = guard.CPU(func() {
					out.panic = guard.Try(sweep)
				})
			})
			out.sweepCPU = max(out.sweepCPU-reencCPU, 0)
			out.sweepAlloc -= min(reencAlloc, out.sweepAlloc)
		}
	})
	noteCPU(tg.name, len(b), out.cpu)
	noteCPU(tg.name+" (accessors)", len(b), out.sweepCPU)
	return out
}

// verdict turns an outcome into an error unless it is fine or a listed known finding.
func (tg *target) verdict(b []byte, o outcome) error {
	if o.panic != nil {
		key := o.panic.Key()
		if k := reencodeKey(tg.name, b, o); k != "" {
			// the encoder's refusal of a value decoded from shared sub-tables
			// (shared_test.go): a recorded finding, matched by call site and
			// by the sharing found in the input
			key = k
		}
		if stats.Known("C02", key) {
			return nil
		}
		return fmt.Errorf("%s: panic during %s on a %d-byte input: %s (key=%s)\n%s", tg.name, o.phase, len(b), o.panic, key, o.panic.Stack)
	}
	if limit := uint64(allocA0 + allocA1*len(b)); o.alloc > limit {
		key := "alloc:" + tg.name
		if ex := walkExpansion(tg.name, b); ex.class(tg.name) != "" && ex.explainsAlloc(o.alloc-limit) {
			// offset aliasing, ranges, zero-size records (alias_test.go): a
			// recorded finding, matched by class and by amount
			key = "alloc-" + ex.class(tg.name)
		}
		if stats.Known("C02", key) {
			return nil
		}
		return fmt.Errorf("%s: decoding a %d-byte input allocated %d bytes (bound %d = 64 MiB + 1 KiB per input byte)", tg.name, len(b), o.alloc, limit)
	} else if o.cpu > cpuLimit(len(b)) || o.sweepCPU > cpuLimit(len(b)) {
		// measured again, twice, before anything is said: the smallest of
		// three measurements must still exceed the bound
		what, d := "decoding", o.cpu
		if o.sweepCPU > d {
			what, d = "the accessors of the value decoded from", o.sweepCPU
		}
		for k := 0; k < 2 && d > cpuLimit(len(b)); k++ {
			o2 := tg.run(b)
			d2 := o2.cpu
			if what != "decoding" {
				d2 = o2.sweepCPU
			}
			if d2 < d {
				d = d2
			}
		}
		if d > cpuLimit(len(b)) {
			key := "cpu:" + tg.name
			if ex := walkExpansion(tg.name, b); ex.class(tg.name) != "" && ex.explainsCPU(d-cpuLimit(len(b))) {
				// the same recorded finding: work, like memory, is spent once per entry
				key = "alloc-" + ex.class(tg.name)
			}
			if stats.Known("C02", key) {
				return nil
			}
			return fmt.Errorf("%s: %s a %d-byte input took %s of CPU time, three times over (bound %s = 2 s + 20 us per input byte)", tg.name, what, len(b), d, cpuLimit(len(b)))
		}
	} else if o.sweepAlloc > limit {
		key := "alloc-accessors:" + tg.name
		if ex := walkExpansion(tg.name, b); ex.class(tg.name) != "" && ex.explainsAlloc(o.sweepAlloc-limit) {
			// (re-encoding a value that holds one decoded copy per entry
			// allocates in the same proportion)
			key = "alloc-" + ex.class(tg.name)
		}
		if stats.Known("C02", key) {
			return nil
		}
		return fmt.Errorf("%s: the accessors of the value decoded from a %d-byte input allocated %d bytes (bound %d = 64 MiB + 1 KiB per input byte)", tg.name, len(b), o.sweepAlloc, limit)
	}
	return nil
}

// inflight records the input that is about to be decoded, so that the driver
// can re-run it alone if the process is killed by an allocation failure
// (file format: target name, newline, bytes - the same as TestC02Replay reads).
func inflight(name string, b []byte) {
	dir := os.Getenv("VERIF_REPLAY_OUT")
	if dir == "" || len(b) > 1<<20 {
		return
	}
	if !inflightDirMade {
		os.MkdirAll(dir, 0o755)
		inflightDirMade = true
	}
	os.WriteFile(dir+"/inflight-oom.bin", append([]byte(name+"\n"), b...), 0o644)
}

var inflightDirMade bool
