package c02

import (
	"fmt"
	"sort"
	"strings"
	"testing"

	"pgregory.net/rapid"

	"verif/harness/stats"
)

// Shared sub-tables and re-encoding.  The offsets inside one GSUB/GPOS
// subtable are 16 bits wide, and font compilers share identical sub-tables
// (pair sets, sequences, rule sets, anchors) between many offsets to stay
// within them.  gtab.Read gives every reference a decoded copy of its own
// and (*Info).Encode writes every copy out again: a subtable that fits only
// because of the sharing decodes, but its decoded value cannot be encoded -
// the encoder refuses with its "subtable too large" panic (offs16).  Only
// the ligature substitution reader checks for this ("GSUB 4.1 too large").
// The second clause of C02 asks that a decoded value can be re-encoded
// without a panic, so this is a recorded finding (key
// reencode-shared:<decoder>); rejecting such subtables in the reader would
// reject files that real compilers write, and an encoder that shares or
// splits is not a small change.  The finding is matched only when the panic
// is the encoder's refusal AND the harness's own walk of the input finds the
// sharing (sharedOffsets: inside one subtable at least 64 more references
// than distinct targets in its offset arrays).

// sharedOffsets walks the offset arrays of every subtable of a GSUB/GPOS
// table and returns the largest surplus of references over distinct targets
// found inside one subtable.
func sharedOffsets(target string, b []byte) int {
	u16 := func(p int) int {
		if p < 0 || p+2 > len(b) {
			return -1
		}
		return int(b[p])<<8 | int(b[p+1])
	}
	gpos := target == "gtab.Read/GPOS"
	best := 0
	ll := u16(8)
	if ll < 0 {
		return 0
	}
	nl := u16(ll)
	for i := 0; i < nl && i < 20000; i++ {
		lo := u16(ll + 2 + 2*i)
		if lo < 0 {
			break
		}
		lp := ll + lo
		ltype, ns := u16(lp), u16(lp+4)
		for j := 0; j < ns && j < 70000; j++ {
			so := u16(lp + 6 + 2*j)
			if so < 0 {
				break
			}
			sp, tp := lp+so, ltype
			if (!gpos && tp == 7) || (gpos && tp == 9) {
				tp = u16(sp + 2)
				hi, lo := u16(sp+4), u16(sp+6)
				if hi < 0 || lo < 0 {
					continue
				}
				sp += hi<<16 | lo
			}
			refs, distinct := 0, map[int]bool{}
			// array counts the offsets of one array (count at cp, n*stride
			// offsets from ap, relative to base) and returns the targets
			array := func(base, cp, ap, stride int) []int {
				n := u16(cp)
				var out []int
				for k := 0; k < n*stride; k++ {
					o := u16(ap + 2*k)
					if o <= 0 {
						continue
					}
					refs++
					if !distinct[base+o] {
						distinct[base+o] = true
						out = append(out, base+o)
					}
				}
				return out
			}
			sets := func(ts []int) { // second level: count, offsets
				for _, p := range ts {
					array(p, p, p+2, 1)
				}
			}
			format := u16(sp)
			ctx := (!gpos && (tp == 5 || tp == 6)) || (gpos && (tp == 7 || tp == 8))
			chained := (!gpos && tp == 6) || (gpos && tp == 8)
			switch {
			case !gpos && tp >= 2 && tp <= 4 && format == 1:
				ts := array(sp, sp+4, sp+6, 1)
				if tp == 4 {
					sets(ts)
				}
			case ctx && format == 1:
				sets(array(sp, sp+4, sp+6, 1))
			case ctx && format == 2 && !chained:
				sets(array(sp, sp+6, sp+8, 1))
			case ctx && format == 2 && chained:
				sets(array(sp, sp+10, sp+12, 1))
			case gpos && tp == 2 && format == 1:
				array(sp, sp+8, sp+10, 1)
			case gpos && tp == 3 && format == 1:
				array(sp, sp+4, sp+6, 2)
			case gpos && tp >= 4 && tp <= 6 && format == 1:
				classes := u16(sp + 6)
				if m := u16(sp + 8); m > 0 { // mark array: count, (class, offset) records
					n := u16(sp + m)
					for k := 0; k < n; k++ {
						if o := u16(sp + m + 4 + 4*k); o > 0 {
							refs++
							distinct[sp+m+o] = true
						}
					}
				}
				if a := u16(sp + 10); a > 0 && classes > 0 && tp != 5 {
					n := u16(sp + a)
					for k := 0; k < n*classes && k < 1<<20; k++ {
						if o := u16(sp + a + 2 + 2*k); o > 0 {
							refs++
							distinct[sp+a+o] = true
						}
					}
				}
			}
			if d := refs - len(distinct); d > best {
				best = d
			}
		}
	}
	return best
}

const sharedMin = 64

// reencodeKey is the key of a panic of the accessor sweep that is the
// encoder's refusal of a value decoded from shared sub-tables, "" otherwise.
func reencodeKey(target string, b []byte, o outcome) string {
	if o.panic == nil || o.phase != "sweep" {
		return ""
	}
	if target == "cmap.Decode" {
		if strings.Contains(o.panic.Key(), "cmap.Format4.Encode:explicit_too_many_mappings") && sharedGlyphIDs(b) >= sharedGlyphIDsMin {
			return "reencode-shared:" + target
		}
		return ""
	}
	if !strings.HasPrefix(target, "gtab.Read/") {
		return ""
	}
	if !strings.Contains(o.panic.Key(), "gtab.offs16:explicit") {
		return ""
	}
	if sharedOffsets(target, b) < sharedMin {
		return ""
	}
	return "reencode-shared:" + target
}

func layoutWith(ltype int, sub []byte) []byte {
	b := []byte{0, 1, 0, 0, 0, 10, 0, 12, 0, 14, 0, 0, 0, 0}
	b = append(b, 0, 1, 0, 4)
	lk := []byte{0, byte(ltype), 0, 0, 0, 1, 0, 8}
	return append(b, append(lk, sub...)...)
}

func rangeCov(n int) []byte {
	s := []byte{0, 2, 0, 1, 0, 0}
	s = be16(s, n-1)
	return append(s, 0, 0)
}

// sharedSeqs: GSUB 2.1 / 3.1 with n sequences (alternate sets) that are one sequence of m glyphs
func sharedSeqs(ltype, n, m int) []byte {
	s := []byte{0, 1}
	covOff := 6 + 2*n
	s = be16(s, covOff)
	s = be16(s, n)
	for i := 0; i < n; i++ {
		s = be16(s, covOff+10)
	}
	s = append(s, rangeCov(n)...)
	s = be16(s, m)
	for i := 0; i < m; i++ {
		s = be16(s, 5)
	}
	return layoutWith(ltype, s)
}

// sharedPairSets: GPOS 2.1 with n pair sets that are one pair set of m pairs
func sharedPairSets(n, m int) []byte {
	s := []byte{0, 1}
	covOff := 10 + 2*n
	s = be16(s, covOff)
	s = be16(s, 4)
	s = be16(s, 0)
	s = be16(s, n)
	for i := 0; i < n; i++ {
		s = be16(s, covOff+10)
	}
	s = append(s, rangeCov(n)...)
	s = be16(s, m)
	for i := 0; i < m; i++ {
		s = be16(s, i+1)
		s = be16(s, 10)
	}
	return layoutWith(2, s)
}

// sharedAnchors: GPOS 3.1 with n entry/exit records whose anchors are one anchor
func sharedAnchors(n int) []byte {
	s := []byte{0, 1}
	covOff := 6 + 4*n
	s = be16(s, covOff)
	s = be16(s, n)
	for i := 0; i < n; i++ {
		s = be16(s, covOff+10)
		s = be16(s, covOff+10)
	}
	s = append(s, rangeCov(n)...)
	s = append(s, 0, 1, 0, 5, 0, 6)
	return layoutWith(3, s)
}

// sharedRuleSets: sequence context format 1 (GSUB 5.1, GPOS 7.1) with n rule
// sets that are one rule set of one rule of m glyphs
func sharedRuleSets(ltype, n, m int) []byte {
	s := []byte{0, 1}
	covOff := 6 + 2*n
	s = be16(s, covOff)
	s = be16(s, n)
	for i := 0; i < n; i++ {
		s = be16(s, covOff+10)
	}
	s = append(s, rangeCov(n)...)
	s = append(s, 0, 1, 0, 4)
	s = be16(s, m)
	s = be16(s, 0)
	for i := 1; i < m; i++ {
		s = be16(s, 5)
	}
	return layoutWith(ltype, s)
}

type sharedCase struct {
	name, target string
	b            []byte
}

func sharedCases(n, m int) []sharedCase {
	return []sharedCase{
		{"GSUB 2.1 sequences", "gtab.Read/GSUB", sharedSeqs(2, n, m)},
		{"GSUB 3.1 alternate sets", "gtab.Read/GSUB", sharedSeqs(3, n, m)},
		{"GSUB 5.1 rule sets", "gtab.Read/GSUB", sharedRuleSets(5, n, m)},
		{"GPOS 2.1 pair sets", "gtab.Read/GPOS", sharedPairSets(n, m/3+1)},
		{"GPOS 3.1 anchors", "gtab.Read/GPOS", sharedAnchors(4 * n)},
		{"GPOS 7.1 rule sets", "gtab.Read/GPOS", sharedRuleSets(7, n, m)},
	}
}

// TestC02KnownSharedReencode runs the reproducers of the recorded finding.
func TestC02KnownSharedReencode(t *testing.T) {
	for _, c := range sharedCases(2000, 30) {
		tg := targetByName(c.target)
		o := tg.run(c.b)
		if !o.accepted {
			t.Logf("%s: the %d-byte reproducer is now rejected by the decoder", c.name, len(c.b))
			stats.CaseIn("known-shared", stats.Hash(c.name, c.b), false, nil, "rejected:"+c.name)
			continue
		}
		if o.panic == nil {
			t.Logf("%s: the value decoded from the %d-byte reproducer is now re-encoded without a panic", c.name, len(c.b))
			stats.CaseIn("known-shared", stats.Hash(c.name, c.b), false, nil, "encodes:"+c.name)
			continue
		}
		if reencodeKey(c.target, c.b, o) == "" {
			t.Fatalf("HARNESS: the reproducer %s is not recognised (surplus %d, panic %s)", c.name, sharedOffsets(c.target, c.b), o.panic)
		}
		if err := tg.verdict(c.b, o); err != nil {
			t.Fatalf("%s: %v", c.name, err)
		}
		stats.CaseIn("known-shared", stats.Hash(c.name, c.b), true, func() string {
			return fmt.Sprintf("%s: %d-byte table, %d shared references: decoded, Encode refused (%s)", c.name, len(c.b), sharedOffsets(c.target, c.b), o.panic)
		}, "known:"+c.name)
	}
	// a small amount of sharing is no excuse: these encode, and a panic would be reported
	for _, c := range sharedCases(40, 4) {
		tg := targetByName(c.target)
		o := tg.run(c.b)
		if !o.accepted {
			t.Fatalf("HARNESS: %s: the small shared table is rejected", c.name)
		}
		if o.panic != nil && reencodeKey(c.target, c.b, o) != "" {
			t.Fatalf("HARNESS: %s: a %d-byte table with surplus %d would be excused", c.name, len(c.b), sharedOffsets(c.target, c.b))
		}
		if err := tg.verdict(c.b, o); err != nil {
			t.Fatalf("%s: %v", c.name, err)
		}
		stats.CaseIn("known-shared", stats.Hash(c.name, c.b), true, nil, "small-shared-encodes:"+c.name)
	}
}

// sharedSeed is used by the generators at a low rate (see aliasedSeed).
func sharedSeed(t *rapid.T, target string) []byte {
	n := rapid.IntRange(100, 2500).Draw(t, "sharedRefs")
	m := rapid.IntRange(1, 40).Draw(t, "sharedLen")
	var cs []sharedCase
	for _, c := range sharedCases(n, m) {
		if c.target == target {
			cs = append(cs, c)
		}
	}
	return cs[rapid.IntRange(0, len(cs)-1).Draw(t, "sharedCase")].b
}

// The same for cmap format 4: segments may point into one another's part of
// the glyphIdArray; the decoded mapping has an entry per code, and
// Format4.Encode refuses ("too many mappings for a format 4 subtable") when
// the array it would have to write passes 64 KiB.  Key
// reencode-shared:cmap.Decode; evidence: sharedGlyphIDs, the surplus of
// glyphIdArray references over distinct slots in one subtable.

func sharedGlyphIDs(b []byte) int {
	u16 := func(p int) int {
		if p < 0 || p+2 > len(b) {
			return -1
		}
		return int(b[p])<<8 | int(b[p+1])
	}
	best := 0
	n := u16(2)
	done := map[int]bool{}
	for i := 0; i < n; i++ {
		hi, lo := u16(4+8*i+4), u16(4+8*i+6)
		if hi < 0 || lo < 0 {
			break
		}
		sp := hi<<16 | lo
		if done[sp] || u16(sp) != 4 {
			continue
		}
		done[sp] = true
		segX2 := u16(sp + 6)
		if segX2 <= 0 {
			continue
		}
		type iv struct{ a, b int }
		var ivs []iv
		refs := 0
		for k := 0; k < segX2/2; k++ {
			end, start := u16(sp+14+2*k), u16(sp+16+segX2+2*k)
			irp := sp + 16 + 3*segX2 + 2*k
			iro := u16(irp)
			if end < 0 || start < 0 || iro <= 0 || end < start {
				continue
			}
			cnt := end - start + 1
			refs += cnt
			ivs = append(ivs, iv{irp + iro, irp + iro + 2*cnt})
		}
		sort.Slice(ivs, func(i, j int) bool { return ivs[i].a < ivs[j].a })
		distinct, to := 0, -1
		for _, v := range ivs {
			a := max(v.a, to)
			if v.b > a {
				distinct += (v.b - a) / 2
				to = v.b
			}
		}
		if d := refs - distinct; d > best {
			best = d
		}
	}
	return best
}

const sharedGlyphIDsMin = 4096

// sharedGlyphIDArray is a cmap table with one format 4 subtable whose nseg
// segments of segLen codes (100 unmapped codes between them) all use the
// same segLen entries of the glyphIdArray, filled with irregular glyph ids.
func sharedGlyphIDArray(nseg, segLen int) []byte {
	segs := nseg + 1
	var s []byte
	s = be16(s, 4)
	s = be16(s, 0) // length, below
	s = be16(s, 0)
	s = be16(s, 2*segs)
	s = append(s, 0, 0, 0, 0, 0, 0)
	for i := 0; i < nseg; i++ {
		s = be16(s, i*(segLen+100)+segLen-1+32)
	}
	s = be16(s, 0xFFFF)
	s = be16(s, 0)
	for i := 0; i < nseg; i++ {
		s = be16(s, i*(segLen+100)+32)
	}
	s = be16(s, 0xFFFF)
	for i := 0; i < nseg; i++ {
		s = be16(s, 0)
	}
	s = be16(s, 1)
	for i := 0; i < nseg; i++ {
		s = be16(s, 2*(segs-i)) // idRangeOffset: the start of the array
	}
	s = be16(s, 0)
	for k := 0; k < segLen; k++ {
		s = be16(s, 1+(k*7919)%60000)
	}
	s[2], s[3] = byte(len(s)>>8), byte(len(s))
	b := []byte{0, 0, 0, 1, 0, 3, 0, 1, 0, 0, 0, 12}
	return append(b, s...)
}

func TestC02KnownSharedGlyphIDs(t *testing.T) {
	tg := targetByName("cmap.Decode")
	b := sharedGlyphIDArray(10, 4000)
	o := tg.run(b)
	switch {
	case !o.accepted:
		t.Logf("the %d-byte reproducer is now rejected by the decoder", len(b))
		stats.CaseIn("known-shared", stats.Hash("cmap4", b), false, nil, "rejected:cmap4")
	case o.panic == nil:
		t.Logf("the subtable decoded from the %d-byte reproducer is now re-encoded without a panic", len(b))
		stats.CaseIn("known-shared", stats.Hash("cmap4", b), false, nil, "encodes:cmap4")
	default:
		if reencodeKey("cmap.Decode", b, o) == "" {
			t.Fatalf("HARNESS: the reproducer is not recognised (surplus %d, panic %s)", sharedGlyphIDs(b), o.panic)
		}
		if err := tg.verdict(b, o); err != nil {
			t.Fatalf("%v", err)
		}
		stats.CaseIn("known-shared", stats.Hash("cmap4", b), true, func() string {
			return fmt.Sprintf("cmap format 4: %d-byte table, %d shared glyphIdArray references: decoded, Encode refused (%s)", len(b), sharedGlyphIDs(b), o.panic)
		}, "known:cmap4")
	}
	// little sharing: encodes
	b = sharedGlyphIDArray(3, 50)
	o = tg.run(b)
	if !o.accepted || reencodeKey("cmap.Decode", b, o) != "" {
		t.Fatalf("HARNESS: the small shared table is rejected or would be excused (surplus %d)", sharedGlyphIDs(b))
	}
	if err := tg.verdict(b, o); err != nil {
		t.Fatalf("%v", err)
	}
	stats.CaseIn("known-shared", stats.Hash("cmap4", b), true, nil, "small-shared-encodes:cmap4")
}
