package c02

import (
	"encoding/binary"
	"fmt"
	"testing"

	"pgregory.net/rapid"

	"verif/harness/stats"
)

// Offset aliasing.  The layout tables, GDEF and the name table are trees of
// offsets, and nothing keeps a table from pointing many offsets at one
// target.  A reader that decodes a target once per reference does work and
// allocates memory in proportion to (references x size of the target), which
// for a coverage table spelled as one range is 65536 map entries for ten
// bytes.  This is a recorded finding of C02 (known-findings.txt, keys
// alloc-aliased:*): the builders below are its reproducers, and classifier
// aliasClass recognises the class on any input - by a structural walk that
// is independent of the library - so that an allocation violation of this
// class is matched by key while every other allocation violation is still
// reported.

func be16(b []byte, v int) []byte { return append(b, byte(v>>8), byte(v)) }

// aliasedLayoutTable is a GSUB (kind "GSUB": single substitutions, format 1)
// or GPOS (single adjustments, format 1) table with one lookup of n subtables
// that all point at one coverage table covering the glyphs 0..covGlyphs-1.
func aliasedLayoutTable(kind string, n, covGlyphs int) []byte {
	b := []byte{0, 1, 0, 0, 0, 10, 0, 12, 0, 14, 0, 0, 0, 0} // header, empty script and feature lists
	b = append(b, 0, 1, 0, 4)                                  // lookup list: one lookup
	subLen := 6
	if kind == "GPOS" {
		subLen = 8
	}
	lk := []byte{0, 1, 0, 0}
	lk = be16(lk, n)
	for i := 0; i < n; i++ {
		lk = be16(lk, 6+2*n+subLen*i)
	}
	covOff := 6 + 2*n + subLen*n
	for i := 0; i < n; i++ {
		rel := covOff - (6 + 2*n + subLen*i)
		if kind == "GPOS" {
			lk = append(lk, 0, 1, byte(rel>>8), byte(rel), 0, 4, 0, 10) // posFormat 1, coverage, valueFormat xAdvance, 10
		} else {
			lk = append(lk, 0, 1, byte(rel>>8), byte(rel), 0, 1) // substFormat 1, coverage, delta 1
		}
	}
	lk = append(lk, 0, 2, 0, 1, 0, 0)
	lk = be16(lk, covGlyphs-1)
	lk = append(lk, 0, 0)
	return append(b, lk...)
}

// aliasedGdef is a GDEF 1.2 table whose n mark glyph sets all are one coverage table.
func aliasedGdef(n, covGlyphs int) []byte {
	b := []byte{0, 1, 0, 2, 0, 0, 0, 0, 0, 0, 0, 0, 0, 14}
	mgs := []byte{0, 1}
	mgs = be16(mgs, n)
	covOff := 4 + 4*n
	for i := 0; i < n; i++ {
		mgs = binary.BigEndian.AppendUint32(mgs, uint32(covOff))
	}
	mgs = append(mgs, 0, 2, 0, 1, 0, 0)
	mgs = be16(mgs, covGlyphs-1)
	mgs = append(mgs, 0, 0)
	return append(b, mgs...)
}

// aliasedName is a name table whose n Windows records (name ids 0..n-1) all
// point at one string of strLen bytes.
func aliasedName(n, strLen int) []byte {
	hdr := 6 + 12*n
	b := []byte{0, 0}
	b = be16(b, n)
	b = be16(b, hdr)
	for i := 0; i < n; i++ {
		b = be16(b, 3)
		b = be16(b, 1)
		b = be16(b, 0x409)
		b = be16(b, i)
		b = be16(b, strLen)
		b = be16(b, 0)
	}
	for i := 0; i < strLen; i++ {
		b = append(b, byte(0x41*(i%2)))
	}
	return b
}

// aliasClass classifies an input of the named target: "" or the name of an
// aliasing class.  An input belongs to a class when the sizes of the offset
// targets, counted once per reference, come to at least eight times their
// sizes counted once per distinct target, and to an amount that matters
// (2^17 glyph entries, 2^21 string bytes: less cannot exceed the allocation bound).
func aliasClass(target string, b []byte) string {
	u16 := func(p int) int {
		if p < 0 || p+2 > len(b) {
			return -1
		}
		return int(b[p])<<8 | int(b[p+1])
	}
	covSize := func(p int) int {
		switch u16(p) {
		case 1:
			return max(u16(p+2), 0)
		case 2:
			n, total := u16(p+2), 0
			for i := 0; i < n && i < 10000; i++ {
				s, e := u16(p+4+6*i), u16(p+6+6*i)
				if s < 0 || e < s {
					break
				}
				total += e - s + 1
			}
			return total
		}
		return 0
	}
	var refs, distinct int
	seen := map[int]bool{}
	ref := func(p int) {
		sz := covSize(p)
		refs += sz
		if !seen[p] {
			seen[p] = true
			distinct += sz
		}
	}
	switch target {
	case "gtab.Read/GSUB", "gtab.Read/GPOS":
		ll := u16(8)
		if ll < 0 {
			return ""
		}
		nl := u16(ll)
		for i := 0; i < nl && i < 20000; i++ {
			lo := u16(ll + 2 + 2*i)
			if lo < 0 {
				break
			}
			lp := ll + lo
			ltype, ns := u16(lp), u16(lp+4)
			for j := 0; j < ns && j < 70000; j++ {
				so := u16(lp + 6 + 2*j)
				if so < 0 {
					break
				}
				sp, tp := lp+so, ltype
				if (target == "gtab.Read/GSUB" && tp == 7) || (target == "gtab.Read/GPOS" && tp == 9) {
					// extension subtable: type, 32-bit offset
					tp = u16(sp + 2)
					hi, lo := u16(sp+4), u16(sp+6)
					if hi < 0 || lo < 0 {
						continue
					}
					sp += hi<<16 | lo
				}
				if c := u16(sp + 2); c > 0 {
					ref(sp + c)
				}
				if target == "gtab.Read/GPOS" && tp >= 4 && tp <= 6 {
					if c := u16(sp + 4); c > 0 {
						ref(sp + c)
					}
				}
			}
		}
		if refs >= 1<<17 && refs >= 8*distinct {
			return "coverage:" + target
		}
	case "gdef.Read":
		if u16(2) < 2 {
			return ""
		}
		mp := u16(12)
		if mp <= 0 {
			return ""
		}
		n := u16(mp + 2)
		for i := 0; i < n; i++ {
			hi, lo := u16(mp+4+4*i), u16(mp+6+4*i)
			if hi < 0 || lo < 0 {
				break
			}
			ref(mp + (hi<<16 | lo))
		}
		if refs >= 1<<17 && refs >= 8*distinct {
			return "coverage:" + target
		}
	case "name.Decode":
		n := u16(2)
		type span struct{ off, length int }
		spans := map[span]bool{}
		for i := 0; i < n; i++ {
			l, o := u16(6+12*i+8), u16(6+12*i+10)
			if l < 0 || o < 0 {
				break
			}
			refs += l
			if !spans[span{o, l}] {
				spans[span{o, l}] = true
				distinct += l
			}
		}
		if refs >= 1<<21 && refs >= 8*distinct {
			return "strings:" + target
		}
	}
	return ""
}

// TestC02KnownAliasing runs the reproducers of the recorded finding.
func TestC02KnownAliasing(t *testing.T) {
	cases := []struct {
		target string
		b      []byte
	}{
		{"gtab.Read/GSUB", aliasedLayoutTable("GSUB", 100, 65536)},
		{"gtab.Read/GPOS", aliasedLayoutTable("GPOS", 100, 65536)},
		{"gdef.Read", aliasedGdef(100, 65536)},
		{"name.Decode", aliasedName(600, 60000)},
	}
	for _, c := range cases {
		cls := aliasClass(c.target, c.b)
		if cls == "" {
			t.Fatalf("HARNESS: the reproducer for %s is not recognised as aliased", c.target)
		}
		tg := targetByName(c.target)
		o := tg.run(c.b)
		limit := uint64(allocA0 + allocA1*len(c.b))
		if o.panic != nil {
			t.Fatalf("%s: panic on the aliasing reproducer: %s", c.target, o.panic)
		}
		if o.alloc <= limit {
			t.Logf("%s: %d-byte reproducer of class %s now stays within the bound (%d of %d bytes allocated)", c.target, len(c.b), cls, o.alloc, limit)
			stats.CaseIn("known-aliasing", stats.Hash(c.target, c.b), false, nil, "within-bound:"+c.target)
			continue
		}
		if err := tg.verdict(c.b, o); err != nil {
			t.Fatalf("%v", err)
		}
		stats.CaseIn("known-aliasing", stats.Hash(c.target, c.b), true, func() string {
			return fmt.Sprintf("%s: %d-byte table of class %s: %d bytes allocated (bound %d)", c.target, len(c.b), cls, o.alloc, limit)
		}, "known:"+cls)
	}
}

// aliasedSeed is used by the generators at a low rate, so that the search
// goes on inside the class (panics, hangs) while its allocation is matched.
func aliasedSeed(t *rapid.T, target string) []byte {
	n := rapid.IntRange(40, 120).Draw(t, "aliasRefs")
	switch target {
	case "gtab.Read/GSUB":
		return aliasedLayoutTable("GSUB", n, rapid.SampledFrom([]int{65536, 40000, 20000}).Draw(t, "aliasCov"))
	case "gtab.Read/GPOS":
		return aliasedLayoutTable("GPOS", n, rapid.SampledFrom([]int{65536, 40000, 20000}).Draw(t, "aliasCov"))
	case "gdef.Read":
		return aliasedGdef(n, rapid.SampledFrom([]int{65536, 40000, 20000}).Draw(t, "aliasCov"))
	default:
		return aliasedName(10*n, rapid.SampledFrom([]int{60000, 30000}).Draw(t, "aliasStrLen"))
	}
}
