package c02

import (
	"encoding/binary"
	"fmt"
	"testing"
	"time"

	"pgregory.net/rapid"

	"verif/harness/stats"
)

// Offset aliasing, ranges and zero-size records.  The layout tables, GDEF and the name table are trees of
// offsets, and nothing keeps a table from pointing many offsets at one
// target.  A reader that decodes a target once per reference does work and
// allocates memory in proportion to (references x size of the target), which
// for a coverage table spelled as one range is 65536 map entries for ten
// bytes.  The same holds without any aliasing: the decoded form of a coverage
// or class definition table is a map with one entry per glyph, so that a
// hundred subtables with a range each cost as much; and a GPOS value format
// without fields makes value records take no input bytes, so that the record
// counts of single (format 2) and pair (format 2) adjustment subtables are
// free.  These are recorded findings of C02 (known-findings.txt, keys
// alloc-aliased:*, alloc-expanded:*): the builders below are the reproducers,
// and walkExpansion measures the class on any input - by a structural walk
// that is independent of the library - so that an allocation violation that
// the expansion accounts for is matched by key while every other allocation
// violation, also on an input of the class, is still reported.

func be16(b []byte, v int) []byte { return append(b, byte(v>>8), byte(v)) }

// aliasedLayoutTable is a GSUB (kind "GSUB": single substitutions, format 1)
// or GPOS (single adjustments, format 1) table with one lookup of n subtables
// that all point at one coverage table covering the glyphs 0..covGlyphs-1.
func aliasedLayoutTable(kind string, n, covGlyphs int) []byte {
	b := []byte{0, 1, 0, 0, 0, 10, 0, 12, 0, 14, 0, 0, 0, 0} // header, empty script and feature lists
	b = append(b, 0, 1, 0, 4)                                // lookup list: one lookup
	subLen := 6
	if kind == "GPOS" {
		subLen = 8
	}
	lk := []byte{0, 1, 0, 0}
	lk = be16(lk, n)
	for i := 0; i < n; i++ {
		lk = be16(lk, 6+2*n+subLen*i)
	}
	covOff := 6 + 2*n + subLen*n
	for i := 0; i < n; i++ {
		rel := covOff - (6 + 2*n + subLen*i)
		if kind == "GPOS" {
			lk = append(lk, 0, 1, byte(rel>>8), byte(rel), 0, 4, 0, 10) // posFormat 1, coverage, valueFormat xAdvance, 10
		} else {
			lk = append(lk, 0, 1, byte(rel>>8), byte(rel), 0, 1) // substFormat 1, coverage, delta 1
		}
	}
	lk = append(lk, 0, 2, 0, 1, 0, 0)
	lk = be16(lk, covGlyphs-1)
	lk = append(lk, 0, 0)
	return append(b, lk...)
}

// rangeCoverageTable is a GSUB table with one lookup of n single substitution
// subtables, each with a coverage table of its own: one range, covGlyphs glyphs.
func rangeCoverageTable(n, covGlyphs int) []byte {
	b := []byte{0, 1, 0, 0, 0, 10, 0, 12, 0, 14, 0, 0, 0, 0}
	b = append(b, 0, 1, 0, 4)
	lk := []byte{0, 1, 0, 0}
	lk = be16(lk, n)
	const subLen = 16
	for i := 0; i < n; i++ {
		lk = be16(lk, 6+2*n+subLen*i)
	}
	for i := 0; i < n; i++ {
		lk = append(lk, 0, 1, 0, 6, 0, 1)
		lk = append(lk, 0, 2, 0, 1, 0, 0)
		lk = be16(lk, covGlyphs-1)
		lk = append(lk, 0, 0)
	}
	return append(b, lk...)
}

// zeroSizeRecordTable is a GPOS table with one lookup of n pair adjustment
// subtables of format 2 (pair=true: value formats vf, vf; c1 x c2 class pairs)
// or single adjustment subtables of format 2 (c1 records), each with its own
// empty coverage and class definition tables.
func zeroSizeRecordTable(pair bool, n, vf, c1, c2 int) []byte {
	b := []byte{0, 1, 0, 0, 0, 10, 0, 12, 0, 14, 0, 0, 0, 0}
	b = append(b, 0, 1, 0, 4)
	lk := []byte{0, 2, 0, 0}
	subLen := 32
	if !pair {
		lk[1], subLen = 1, 12
	}
	lk = be16(lk, n)
	for i := 0; i < n; i++ {
		lk = be16(lk, 6+2*n+subLen*i)
	}
	for i := 0; i < n; i++ {
		if pair {
			s := []byte{0, 2}
			s = be16(s, 16) // coverage
			s = be16(s, vf)
			s = be16(s, vf)
			s = be16(s, 20)
			s = be16(s, 26)
			s = be16(s, c1)
			s = be16(s, c2)
			s = append(s, 0, 1, 0, 0)       // coverage, format 1, no glyphs
			s = append(s, 0, 1, 0, 0, 0, 0) // class definitions, format 1, no glyphs
			s = append(s, 0, 1, 0, 0, 0, 0)
			lk = append(lk, s...)
		} else {
			s := []byte{0, 2, 0, 8}
			s = be16(s, vf)
			s = be16(s, c1)
			s = append(s, 0, 1, 0, 0)
			lk = append(lk, s...)
		}
	}
	return append(b, lk...)
}

// aliasedGdef is a GDEF 1.2 table whose n mark glyph sets all are one coverage table.
func aliasedGdef(n, covGlyphs int) []byte {
	b := []byte{0, 1, 0, 2, 0, 0, 0, 0, 0, 0, 0, 0, 0, 14}
	mgs := []byte{0, 1}
	mgs = be16(mgs, n)
	covOff := 4 + 4*n
	for i := 0; i < n; i++ {
		mgs = binary.BigEndian.AppendUint32(mgs, uint32(covOff))
	}
	mgs = append(mgs, 0, 2, 0, 1, 0, 0)
	mgs = be16(mgs, covGlyphs-1)
	mgs = append(mgs, 0, 0)
	return append(b, mgs...)
}

// rangeGdef is a GDEF 1.2 table whose n mark glyph sets each have a coverage
// table of their own: one range, covGlyphs glyphs.
func rangeGdef(n, covGlyphs int) []byte {
	b := []byte{0, 1, 0, 2, 0, 0, 0, 0, 0, 0, 0, 0, 0, 14}
	mgs := []byte{0, 1}
	mgs = be16(mgs, n)
	for i := 0; i < n; i++ {
		mgs = binary.BigEndian.AppendUint32(mgs, uint32(4+4*n+10*i))
	}
	for i := 0; i < n; i++ {
		mgs = append(mgs, 0, 2, 0, 1, 0, 0)
		mgs = be16(mgs, covGlyphs-1)
		mgs = append(mgs, 0, 0)
	}
	return append(b, mgs...)
}

// aliasedName is a name table whose n Windows records (name ids 0..n-1) all
// point at one string of strLen bytes.
func aliasedName(n, strLen int) []byte {
	hdr := 6 + 12*n
	b := []byte{0, 0}
	b = be16(b, n)
	b = be16(b, hdr)
	for i := 0; i < n; i++ {
		b = be16(b, 3)
		b = be16(b, 1)
		b = be16(b, 0x409)
		b = be16(b, i)
		b = be16(b, strLen)
		b = be16(b, 0)
	}
	for i := 0; i < strLen; i++ {
		b = append(b, byte(0x41*(i%2)))
	}
	return b
}

// expansion is the result of the structural walk of one input: how many
// entries of the decoded representation its offset targets stand for, counted
// once per reference (refs) and once per distinct target (distinct).  An
// entry is one covered glyph of a coverage table, one classified glyph of a
// class definition table, one value record of zero bytes (a GPOS value format
// without fields makes the record count of a subtable free), or, for the name
// table, one byte of string data.
type expansion struct{ refs, distinct int }

// bytesPerEntry bounds what one entry may cost (map entries, pointers, records
// and the re-encoder's copies; measured: 24-60 bytes); timePerEntry likewise.
const (
	bytesPerEntry = 256
	timePerEntry  = 5 * time.Microsecond
)

// class names the finding the input belongs to: "" when the expansion is too
// small to matter (less than 2^17 entries, 2^21 string bytes: that much cannot
// exceed the allocation bound), "aliased:..." when references outnumber
// distinct targets eight to one, "expanded:..." otherwise (ranges, zero-size
// records).
func (e expansion) class(target string) string {
	min := 1 << 17
	what := "coverage:"
	if target == "name.Decode" {
		min, what = 1<<21, "strings:"
	}
	if e.refs < min {
		return ""
	}
	if e.refs >= 8*e.distinct {
		return "aliased:" + what + target
	}
	return "expanded:" + target
}

// aliasClass classifies an input of the named target (see expansion.class).
func aliasClass(target string, b []byte) string {
	return walkExpansion(target, b).class(target)
}

// explained reports whether an allocation (or CPU time) beyond the bound is
// accounted for by the expansion: a violation of another cause on an input
// of the class is still reported.
func (e expansion) explainsAlloc(excess uint64) bool {
	return excess <= uint64(e.refs)*bytesPerEntry
}
func (e expansion) explainsCPU(excess time.Duration) bool {
	return excess <= time.Duration(e.refs)*timePerEntry
}

func walkExpansion(target string, b []byte) expansion {
	u16 := func(p int) int {
		if p < 0 || p+2 > len(b) {
			return -1
		}
		return int(b[p])<<8 | int(b[p+1])
	}
	covSize := func(p int) int {
		switch u16(p) {
		case 1:
			return max(u16(p+2), 0)
		case 2:
			n, total := u16(p+2), 0
			for i := 0; i < n && i < 10000; i++ {
				s, e := u16(p+4+6*i), u16(p+6+6*i)
				if s < 0 || e < s {
					break
				}
				total += e - s + 1
			}
			return total
		}
		return 0
	}
	classSize := func(p int) int {
		switch u16(p) {
		case 1:
			return max(u16(p+4), 0)
		case 2:
			n, total := u16(p+2), 0
			for i := 0; i < n && i < 10000; i++ {
				s, e := u16(p+4+6*i), u16(p+6+6*i)
				if s < 0 || e < s {
					break
				}
				total += e - s + 1
			}
			return total
		}
		return 0
	}
	var ex expansion
	seen := map[[2]int]bool{}
	add := func(kind, p, sz int) {
		ex.refs += sz
		if !seen[[2]int{kind, p}] {
			seen[[2]int{kind, p}] = true
			ex.distinct += sz
		}
	}
	cov := func(base, offPos int) {
		if c := u16(offPos); c > 0 {
			add(0, base+c, covSize(base+c))
		}
	}
	cls := func(base, offPos int) {
		if c := u16(offPos); c > 0 {
			add(1, base+c, classSize(base+c))
		}
	}
	// covArray walks count, offsets... at p and returns the position after it
	covArray := func(base, p int) int {
		n := u16(p)
		if n < 0 {
			return -1
		}
		for i := 0; i < n; i++ {
			cov(base, p+2+2*i)
		}
		return p + 2 + 2*n
	}
	recSize := func(vf int) int {
		n := 0
		for k := 0; k < 8; k++ {
			if vf>>k&1 != 0 {
				n += 2
			}
		}
		return n
	}
	context := func(sp int, chained bool) {
		switch u16(sp) {
		case 1:
			cov(sp, sp+2)
		case 2:
			cov(sp, sp+2)
			cls(sp, sp+4)
			if chained {
				cls(sp, sp+6)
				cls(sp, sp+8)
			}
		case 3:
			if chained {
				p := covArray(sp, sp+2)
				if p > 0 {
					p = covArray(sp, p)
				}
				if p > 0 {
					covArray(sp, p)
				}
			} else {
				n := u16(sp + 2)
				for i := 0; i < n; i++ {
					cov(sp, sp+6+2*i)
				}
			}
		}
	}
	switch target {
	case "gtab.Read/GSUB", "gtab.Read/GPOS":
		gpos := target == "gtab.Read/GPOS"
		ll := u16(8)
		if ll < 0 {
			return ex
		}
		nl := u16(ll)
		for i := 0; i < nl && i < 20000; i++ {
			lo := u16(ll + 2 + 2*i)
			if lo < 0 {
				break
			}
			lp := ll + lo
			ltype, ns := u16(lp), u16(lp+4)
			for j := 0; j < ns && j < 70000; j++ {
				so := u16(lp + 6 + 2*j)
				if so < 0 {
					break
				}
				sp, tp := lp+so, ltype
				if (!gpos && tp == 7) || (gpos && tp == 9) {
					// extension subtable: type, 32-bit offset
					tp = u16(sp + 2)
					hi, lo := u16(sp+4), u16(sp+6)
					if hi < 0 || lo < 0 {
						continue
					}
					sp += hi<<16 | lo
				}
				format := u16(sp)
				switch {
				case !gpos && tp >= 1 && tp <= 4, gpos && tp == 3:
					cov(sp, sp+2)
				case !gpos && tp == 5, gpos && tp == 7:
					context(sp, false)
				case !gpos && tp == 6, gpos && tp == 8:
					context(sp, true)
				case !gpos && tp == 8:
					cov(sp, sp+2)
					if p := covArray(sp, sp+4); p > 0 {
						covArray(sp, p)
					}
				case gpos && tp == 1:
					cov(sp, sp+2)
					if format == 2 && recSize(u16(sp+4)) == 0 {
						add(2, sp, max(u16(sp+6), 0))
					}
				case gpos && tp == 2:
					cov(sp, sp+2)
					if format == 2 {
						cls(sp, sp+8)
						cls(sp, sp+10)
						if recSize(u16(sp+4)) == 0 && recSize(u16(sp+6)) == 0 {
							add(2, sp, max(u16(sp+12), 0)*max(u16(sp+14), 0))
						}
					}
				case gpos && tp >= 4 && tp <= 6:
					cov(sp, sp+2)
					cov(sp, sp+4)
				}
			}
		}
	case "gdef.Read":
		cls(0, 4)
		cls(0, 10)
		for _, lp := range []int{6, 8} { // attachment list, ligature caret list
			if l := u16(lp); l > 0 {
				cov(l, l)
			}
		}
		if u16(2) < 2 {
			return ex
		}
		mp := u16(12)
		if mp <= 0 {
			return ex
		}
		n := u16(mp + 2)
		for i := 0; i < n; i++ {
			hi, lo := u16(mp+4+4*i), u16(mp+6+4*i)
			if hi < 0 || lo < 0 {
				break
			}
			p := mp + (hi<<16 | lo)
			add(0, p, covSize(p))
		}
	case "name.Decode":
		n := u16(2)
		for i := 0; i < n; i++ {
			l, o := u16(6+12*i+8), u16(6+12*i+10)
			if l < 0 || o < 0 {
				break
			}
			ex.refs += l
			if !seen[[2]int{o, l}] {
				seen[[2]int{o, l}] = true
				ex.distinct += l
			}
		}
	}
	return ex
}

// TestC02KnownAliasing runs the reproducers of the recorded finding.
func TestC02KnownAliasing(t *testing.T) {
	cases := []struct {
		target string
		b      []byte
	}{
		{"gtab.Read/GSUB", aliasedLayoutTable("GSUB", 100, 65536)},
		{"gtab.Read/GPOS", aliasedLayoutTable("GPOS", 100, 65536)},
		{"gdef.Read", aliasedGdef(100, 65536)},
		{"name.Decode", aliasedName(600, 60000)},
		{"gtab.Read/GSUB", rangeCoverageTable(100, 65536)},
		{"gtab.Read/GPOS", zeroSizeRecordTable(true, 100, 0, 255, 256)},
		{"gtab.Read/GPOS", zeroSizeRecordTable(false, 300, 0, 65535, 0)},
		{"gdef.Read", rangeGdef(100, 65536)},
	}
	for _, c := range cases {
		cls := aliasClass(c.target, c.b)
		if cls == "" {
			t.Fatalf("HARNESS: the reproducer for %s is not recognised as aliased", c.target)
		}
		tg := targetByName(c.target)
		o := tg.run(c.b)
		limit := uint64(allocA0 + allocA1*len(c.b))
		if o.panic != nil {
			t.Fatalf("%s: panic on the aliasing reproducer: %s", c.target, o.panic)
		}
		if o.alloc <= limit {
			t.Logf("%s: %d-byte reproducer of class %s now stays within the bound (%d of %d bytes allocated)", c.target, len(c.b), cls, o.alloc, limit)
			stats.CaseIn("known-aliasing", stats.Hash(c.target, c.b), false, nil, "within-bound:"+c.target)
			continue
		}
		if err := tg.verdict(c.b, o); err != nil {
			t.Fatalf("%v", err)
		}
		ex := walkExpansion(c.target, c.b)
		t.Logf("%s: %d bytes, class %s, %d entries (%d distinct): %d bytes allocated = bound + %.0f per entry; accessors %d bytes; cpu %s + %s",
			c.target, len(c.b), cls, ex.refs, ex.distinct, o.alloc, float64(o.alloc-limit)/float64(ex.refs), o.sweepAlloc, o.cpu, o.sweepCPU)
		stats.CaseIn("known-aliasing", stats.Hash(c.target, c.b), true, func() string {
			return fmt.Sprintf("%s: %d-byte table of class %s: %d bytes allocated (bound %d)", c.target, len(c.b), cls, o.alloc, limit)
		}, "known:"+cls)
	}
}

// aliasedSeed is used by the generators at a low rate, so that the search
// goes on inside the class (panics, hangs) while its allocation is matched.
func aliasedSeed(t *rapid.T, target string) []byte {
	n := rapid.IntRange(40, 120).Draw(t, "aliasRefs")
	if target != "name.Decode" && rapid.Bool().Draw(t, "expandedNotAliased") {
		// the same amounts without aliasing: ranges, zero-size records
		cov := rapid.SampledFrom([]int{65536, 40000, 20000}).Draw(t, "aliasCov")
		switch target {
		case "gtab.Read/GSUB":
			return rangeCoverageTable(n, cov)
		case "gdef.Read":
			return rangeGdef(n, cov)
		default:
			vf := rapid.SampledFrom([]int{0, 0x0100, 0xFF00}).Draw(t, "valueFormat")
			if rapid.Bool().Draw(t, "pair") {
				return zeroSizeRecordTable(true, n, vf, 255, rapid.IntRange(100, 256).Draw(t, "class2Count"))
			}
			return zeroSizeRecordTable(false, 3*n, vf, cov-1, 0)
		}
	}
	switch target {
	case "gtab.Read/GSUB":
		return aliasedLayoutTable("GSUB", n, rapid.SampledFrom([]int{65536, 40000, 20000}).Draw(t, "aliasCov"))
	case "gtab.Read/GPOS":
		return aliasedLayoutTable("GPOS", n, rapid.SampledFrom([]int{65536, 40000, 20000}).Draw(t, "aliasCov"))
	case "gdef.Read":
		return aliasedGdef(n, rapid.SampledFrom([]int{65536, 40000, 20000}).Draw(t, "aliasCov"))
	default:
		return aliasedName(10*n, rapid.SampledFrom([]int{60000, 30000}).Draw(t, "aliasStrLen"))
	}
}
