package c02

import (
	"bytes"
	"os"
	"path/filepath"
	"testing"
)

// TestC02Regress replays the minimal inputs of repaired findings (plain Go,
// no generator): each must be handled without panic.
func TestC02Regress(t *testing.T) {
	cases := []struct {
		target string
		data   []byte
	}{
		// SimpleGlyph.Decode with non-monotone endPtsOfContours: loca(short, 2 entries) + one glyph
		{"glyf.Decode", append([]byte{0, 0, 4, 0, 0, 0, 10}, []byte{0, 2, 0, 0, 0, 0, 0, 0, 0, 0, 0, 5, 0, 1, 0, 0, 1, 1, 1, 1, 1, 1}...)},
		// cmap format 0 under (1,0): Lookup(-1)
		{"cmap.Decode", append([]byte{0, 0, 0, 1, 0, 1, 0, 0, 0, 0, 0, 12, 0, 0, 1, 6, 0, 0}, make([]byte, 256)...)},
		// GPOS pair adjustment format 2 whose value formats have reserved bits only: 255 x 256 records of no bytes,
		// decoded as empty non-nil records, which the encoder wrote with two bytes each: offsets beyond 64 KiB
		{"gtab.Read/GPOS", zeroSizeRecordTable(true, 1, 0x0100, 255, 256)},
		{"gtab.Read/GPOS", zeroSizeRecordTable(true, 1, 0xFF00, 255, 256)},
		{"gtab.Read/GPOS", zeroSizeRecordTable(false, 1, 0x8000, 65535, 0)},
		// kern: 20000 subtables of 14 bytes claiming 36000 pairs each (496 KB): 21 s of CPU time before the repair
		{"kern.Read", overlappingKern(20000, 36000, 14)},
		// GDEF 1.2, well-formed, sub-tables in the order mark glyph sets, glyph classes, mark attachment
		// classes (two irregular class tables of 44 KB): Encode of the decoded table put the mark glyph
		// sets last, beyond 64 KiB, and refused ("GDEF table too large")
		{"gdef.Read", gdefSetsFirst(22000)},
		// counts that include the first glyph, value 0: count-1 was computed in 16 bits (65535 entries per four-byte record;
		// the chained format 1 reader stopped after the first such rule through its size check, format 2 and GSUB 4.1 did not)
		{"gtab.Read/GSUB", zeroComponentLigatures(4000)},
		{"gtab.Read/GSUB", zeroInputChainRules(4000, 1)},
		{"gtab.Read/GSUB", zeroInputChainRules(4000, 2)},
	}
	for _, c := range cases {
		tg := targetByName(c.target)
		if err := tg.verdict(c.data, tg.run(c.data)); err != nil {
			t.Errorf("%v", err)
		}
	}
}

// TestC02RegressFiles replays the saved inputs of repaired findings kept
// under corpus/c02/regress (file: target name, newline, bytes), e.g. the
// subroutine-expansion and Private-DICT-size inputs found by the thorough
// tier.
func TestC02RegressFiles(t *testing.T) {
	dir := os.Getenv("VERIF_CORPUS")
	if dir == "" {
		t.Skip("VERIF_CORPUS not set")
	}
	files, _ := filepath.Glob(filepath.Join(dir, "c02", "regress", "*.bin"))
	for _, fn := range files {
		data, err := os.ReadFile(fn)
		if err != nil {
			t.Fatal(err)
		}
		i := bytes.IndexByte(data, '\n')
		if i < 0 {
			t.Fatalf("%s: malformed", fn)
		}
		tg := targetByName(string(data[:i]))
		b := data[i+1:]
		if err := tg.verdict(b, tg.run(b)); err != nil {
			t.Errorf("%s: %v", filepath.Base(fn), err)
		}
	}
	if len(files) == 0 {
		t.Skip("no saved inputs")
	}
}

func gdefSetsFirst(n int) []byte {
	cd := []byte{0, 1, 0, 0}
	cd = be16(cd, n)
	for i := 0; i < n; i++ {
		cd = be16(cd, 1+i%3)
	}
	b := []byte{0, 1, 0, 2}
	b = be16(b, 22) // glyph class definitions
	b = append(b, 0, 0, 0, 0)
	b = be16(b, 22+len(cd))               // mark attachment class definitions
	b = be16(b, 14)                       // mark glyph sets
	b = append(b, 0, 1, 0, 0, 0, 0, 0, 0) // format 1, no sets; padding
	b = append(b, cd...)
	return append(b, cd...)
}
