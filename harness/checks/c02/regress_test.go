package c02

import "testing"

// TestC02Regress replays the minimal inputs of repaired findings (plain Go,
// no generator): each must be handled without panic.
func TestC02Regress(t *testing.T) {
	cases := []struct {
		target string
		data   []byte
	}{
		// SimpleGlyph.Decode with non-monotone endPtsOfContours: loca(short, 2 entries) + one glyph
		{"glyf.Decode", append([]byte{0, 0, 4, 0, 0, 0, 10}, []byte{0, 2, 0, 0, 0, 0, 0, 0, 0, 0, 0, 5, 0, 1, 0, 0, 1, 1, 1, 1, 1, 1}...)},
		// cmap format 0 under (1,0): Lookup(-1)
		{"cmap.Decode", append([]byte{0, 0, 0, 1, 0, 1, 0, 0, 0, 0, 0, 12, 0, 0, 1, 6, 0, 0}, make([]byte, 256)...)},
	}
	for _, c := range cases {
		tg := targetByName(c.target)
		if err := tg.verdict(c.data, tg.run(c.data)); err != nil {
			t.Errorf("%v", err)
		}
	}
}
