package c14

import (
	"bytes"
	"fmt"
	"sort"
	"strings"
	"testing"

	"golang.org/x/text/language"
	"pgregory.net/rapid"

	"seehuhn.de/go/sfnt/name"
	"verif/harness/guard"
	"verif/harness/ref/refname"
	"verif/harness/stats"
)

func describeRecs(version uint16, recs []refname.RawRecord) string {
	var sb strings.Builder
	fmt.Fprintf(&sb, "version %d;", version)
	for _, r := range recs {
		fmt.Fprintf(&sb, " {%d/%d/%#x/%d: %s}", r.Platform, r.Encoding, r.Language, r.NameID, shortBytes(r.Data))
	}
	return sb.String()
}

// TestC14NameRaw: "name" tables written by the harness (both platforms,
// records the library does not understand mixed in, version 0 and 1,
// shared and padded storage) are decoded as the specification says; the
// decoded strings are re-encoded to the bytes they came from.
func TestC14NameRaw(t *testing.T) {
	tt := loadTables()
	if tt.err != nil {
		t.Fatal(tt.err)
	}
	macTag, winTag := map[uint16]string{}, map[uint16]string{}
	for _, e := range tt.mac {
		macTag[e.ID] = e.Tag
	}
	for _, e := range tt.win {
		winTag[e.ID] = e.Tag
	}
	rapid.Check(t, func(t *rapid.T) {
		version := uint16(rapid.SampledFrom([]int{0, 0, 0, 1}).Draw(t, "version"))
		var langTags [][]byte
		if version == 1 {
			for i := rapid.IntRange(0, 3).Draw(t, "nLangTags"); i > 0; i-- {
				langTags = append(langTags, refname.EncodeUTF16BE(rapid.SampledFrom([]string{"en", "de-CH", "zh-Hant"}).Draw(t, "langTag")))
			}
		}
		n := rapid.SampledFrom([]int{0, 1, 2, 4, 8, 16, 30}).Draw(t, "nRecords")
		type key struct {
			plat uint16
			tag  string
			id   uint16
		}
		chosen := map[key][]byte{}
		skip := map[key]bool{}
		var recs []refname.RawRecord
		nUnderstood, nForeign, nIll, nEmpty := 0, 0, 0, 0
		for i := 0; i < n; i++ {
			id := uint16(rapid.SampledFrom([]int{0, 1, 2, 4, 6, 15, 16, 25, 26, 256, 0xFFFF}).Draw(t, "nameID"))
			share := rapid.Bool().Draw(t, "share")
			switch k := rapid.IntRange(0, 9).Draw(t, "kind"); {
			case k <= 2: // Macintosh / Roman, listed language
				e := tt.mac[rapid.IntRange(0, len(tt.mac)-1).Draw(t, "macLang")]
				kk := key{1, e.Tag, id}
				d, ok := chosen[kk]
				if !ok {
					d = rapid.SliceOfN(rapid.Byte(), 1, 40).Draw(t, "macBytes")
					chosen[kk] = d
				}
				recs = append(recs, refname.RawRecord{Platform: 1, Encoding: 0, Language: e.ID, NameID: id, Data: d, Share: share})
				nUnderstood++
			case k <= 5: // Windows / Unicode BMP, listed language
				var e langEntry
				if rapid.IntRange(0, 5).Draw(t, "dupLang") == 0 {
					e = tt.win[0]
					for _, x := range tt.win {
						if len(idsOfTag(tt.win, x.Tag)) > 1 && rapid.Bool().Draw(t, "which") {
							e = x
						}
					}
				} else {
					e = tt.win[rapid.IntRange(0, len(tt.win)-1).Draw(t, "winLang")]
				}
				kk := key{3, e.Tag, id}
				d, ok := chosen[kk]
				if !ok {
					d = refname.EncodeUTF16BE(genUniString(40).Draw(t, "winStr"))
					chosen[kk] = d
				}
				recs = append(recs, refname.RawRecord{Platform: 3, Encoding: 1, Language: e.ID, NameID: id, Data: d, Share: share})
				nUnderstood++
			case k == 6: // ill-formed UTF-16: behaviour unspecified, must not panic
				e := tt.win[rapid.IntRange(0, len(tt.win)-1).Draw(t, "winLang")]
				d := refname.EncodeUTF16BE(genUniString(8).Draw(t, "winStr"))
				switch rapid.IntRange(0, 2).Draw(t, "illKind") {
				case 0:
					d = append(d, 0x41)
				case 1:
					d = append(d, 0xD8, 0x00)
				default:
					d = append([]byte{0xDC, 0x00}, d...)
				}
				skip[key{3, e.Tag, id}] = true
				recs = append(recs, refname.RawRecord{Platform: 3, Encoding: 1, Language: e.ID, NameID: id, Data: d, Share: share})
				nIll++
			case k == 7: // empty string: an absent name
				if rapid.Bool().Draw(t, "emptyMac") {
					e := tt.mac[rapid.IntRange(0, len(tt.mac)-1).Draw(t, "macLang")]
					recs = append(recs, refname.RawRecord{Platform: 1, Encoding: 0, Language: e.ID, NameID: id, Data: nil})
				} else {
					e := tt.win[rapid.IntRange(0, len(tt.win)-1).Draw(t, "winLang")]
					recs = append(recs, refname.RawRecord{Platform: 3, Encoding: 1, Language: e.ID, NameID: id, Data: nil})
				}
				nEmpty++
			default: // combinations the library documents as ignored
				var r refname.RawRecord
				r.NameID = id
				r.Data = rapid.SliceOfN(rapid.Byte(), 0, 12).Draw(t, "foreignBytes")
				r.Share = share
				switch rapid.IntRange(0, 5).Draw(t, "foreignKind") {
				case 0: // Unicode platform
					r.Platform, r.Encoding, r.Language = 0, uint16(rapid.IntRange(0, 6).Draw(t, "enc")), 0
				case 1: // Macintosh, other script
					r.Platform, r.Encoding, r.Language = 1, uint16(rapid.IntRange(1, 32).Draw(t, "enc")), tt.mac[rapid.IntRange(0, len(tt.mac)-1).Draw(t, "macLang")].ID
				case 2: // Windows, other encoding
					r.Platform, r.Encoding, r.Language = 3, uint16(rapid.SampledFrom([]int{0, 2, 3, 4, 5, 6, 10}).Draw(t, "enc")), tt.win[rapid.IntRange(0, len(tt.win)-1).Draw(t, "winLang")].ID
				case 3: // unlisted Macintosh language
					L := uint16(rapid.IntRange(0, 0xFFFF).Draw(t, "lang"))
					if macTag[L] != "" {
						L = 0x7777
					}
					r.Platform, r.Encoding, r.Language = 1, 0, L
				case 4: // unlisted Windows language
					L := uint16(rapid.IntRange(0, 0xFFFF).Draw(t, "lang"))
					if winTag[L] != "" {
						L = 0x7777
					}
					r.Platform, r.Encoding, r.Language = 3, 1, L
				default: // other platforms
					r.Platform = uint16(rapid.SampledFrom([]int{2, 4, 5, 240, 0xFFFF}).Draw(t, "plat"))
					r.Encoding, r.Language = uint16(rapid.IntRange(0, 3).Draw(t, "enc")), uint16(rapid.IntRange(0, 0xFFFF).Draw(t, "lang"))
				}
				recs = append(recs, r)
				nForeign++
			}
		}
		sorted := rapid.IntRange(0, 3).Draw(t, "sorted") > 0
		if sorted {
			sort.SliceStable(recs, func(i, j int) bool {
				a, b := recs[i], recs[j]
				if a.Platform != b.Platform {
					return a.Platform < b.Platform
				}
				if a.Encoding != b.Encoding {
					return a.Encoding < b.Encoding
				}
				if a.Language != b.Language {
					return a.Language < b.Language
				}
				return a.NameID < b.NameID
			})
		}
		pad := rapid.SampledFrom([]int{0, 0, 1, 3}).Draw(t, "pad")
		data, err := refname.Build(version, recs, langTags, pad)
		if err != nil {
			t.Fatalf("generator: %v", err)
		}
		if _, err := refname.Parse(data); err != nil {
			t.Fatalf("generator: reference reader rejects the reference writer's table: %v", err)
		}
		desc := describeRecs(version, recs)
		fail := func(format string, args ...any) {
			t.Fatalf("name table (pad %d, % x) %s\n  %s", pad, data[:6], desc, fmt.Sprintf(format, args...))
		}

		var dec *name.Info
		if pn := guard.Try(func() { dec, err = name.Decode(data) }); pn != nil {
			fail("Decode: %s", pn)
		}
		if err != nil {
			fail("Decode rejects a well-formed table: %v", err)
		}
		// model
		want := [2]map[string]string{{}, {}}
		wantBytes := map[recKey][]byte{}
		for kk, d := range chosen {
			if skip[kk] {
				continue
			}
			if kk.plat == 1 {
				want[0][fmt.Sprintf("%s/%d", kk.tag, kk.id)] = oracleMacDecode(d)
			} else {
				s, ok := refname.DecodeUTF16BE(d)
				if !ok {
					t.Fatalf("generator: ill-formed UTF-16")
				}
				want[1][fmt.Sprintf("%s/%d", kk.tag, kk.id)] = s
			}
		}
		for pi, tabs := range []name.Tables{dec.Mac, dec.Windows} {
			got, anomalies := flatten(tabs)
			if len(anomalies) > 0 {
				fail("decoded tables: %v", anomalies)
			}
			for kk := range skip {
				if int(kk.plat) == 1+2*pi {
					k := fmt.Sprintf("%s/%d", kk.tag, kk.id)
					delete(got, k)
					delete(want[pi], k)
				}
			}
			if d := diffFlat(want[pi], got); d != "" {
				fail("Decode differs from the reference on the %s platform: %s", []string{"Mac", "Windows"}[pi], d)
			}
		}
		// every key is a usable BCP 47 tag
		for _, tabs := range []name.Tables{dec.Mac, dec.Windows} {
			for k := range tabs {
				if _, err := language.Parse(k); err != nil {
					fail("decoded key %q is not a BCP 47 tag: %v", k, err)
				}
			}
		}

		// re-encode: the bytes of every understood string come back
		var data2 []byte
		if pn := guard.Try(func() { data2 = dec.Encode(1) }); pn != nil {
			fail("Encode of the decoded Info: %s", pn)
		}
		tab2, err := refname.Parse(data2)
		if err != nil {
			fail("reference walk of Encode(Decode(table)): %v", err)
		}
		if err := tab2.CheckSorted(); err != nil {
			fail("Encode(Decode(table)): %v", err)
		}
		for kk, d := range chosen {
			if skip[kk] {
				continue
			}
			ids := idsOfTag(tt.mac, kk.tag)
			if kk.plat == 3 {
				ids = idsOfTag(tt.win, kk.tag)
			}
			for _, L := range ids {
				wantBytes[recKey{kk.plat, L, kk.id}] = d
			}
		}
		seenKey := map[key]bool{}
		for i, r := range tab2.Records {
			tag := macTag[r.Language]
			if r.Platform == 3 {
				tag = winTag[r.Language]
			}
			kk := key{r.Platform, tag, r.NameID}
			if skip[kk] {
				continue
			}
			w, ok := wantBytes[recKey{r.Platform, r.Language, r.NameID}]
			if !ok {
				fail("Encode(Decode(table)): record %d (%d/%d/%#x/%d) was not in the input", i, r.Platform, r.Encoding, r.Language, r.NameID)
			}
			if !bytes.Equal(w, r.Data) {
				fail("Encode(Decode(table)): record %d (%d/%d/%#x/%d) holds %s, the input had %s (%s)", i, r.Platform, r.Encoding, r.Language, r.NameID, shortBytes(r.Data), shortBytes(w), diffBytes(r.Data, w))
			}
			seenKey[kk] = true
		}
		for kk := range chosen {
			if !skip[kk] && !seenKey[kk] {
				fail("Encode(Decode(table)): %q name id %d of platform %d is gone", kk.tag, kk.id, kk.plat)
			}
		}

		nt := nUnderstood >= 2 && nForeign >= 1
		stats.CaseIn("name-raw", stats.Hash(desc, pad, sorted), nt, func() string { return desc },
			ifs(version == 1, "version-1", "version-0"), ifs(nForeign > 0, "foreign-records", ""),
			ifs(nIll > 0, "ill-formed-utf16(no-panic-only)", ""), ifs(nEmpty > 0, "empty-strings", ""),
			ifs(!sorted, "unsorted-records", ""), ifs(pad > 0, "padded-storage", ""))
	})
}

// TestC14LangIDs enumerates all 65536 language ids of both platforms:
// listed ids decode to their tag and come back under the same id; unlisted
// ids are ignored.
func TestC14LangIDs(t *testing.T) {
	tt := loadTables()
	if tt.err != nil {
		t.Fatal(tt.err)
	}
	for pi, tab := range [][]langEntry{tt.mac, tt.win} {
		plat, enc := uint16(1), uint16(0)
		pname := "Macintosh"
		if pi == 1 {
			plat, enc, pname = 3, 1, "Windows"
		}
		listed := map[uint16]string{}
		for _, e := range tab {
			if _, dup := listed[e.ID]; dup {
				t.Fatalf("%s language id %#x listed twice in the library's table", pname, e.ID)
			}
			listed[e.ID] = e.Tag
		}
		str := func(L uint16) (string, []byte) {
			s := fmt.Sprintf("L%d", L)
			if plat == 1 {
				return s, []byte(s)
			}
			return s, refname.EncodeUTF16BE(s)
		}
		// (a) every listed id on its own
		for _, e := range tab {
			s, d := str(e.ID)
			data, err := refname.Build(0, []refname.RawRecord{{Platform: plat, Encoding: enc, Language: e.ID, NameID: 1, Data: d}}, nil, 0)
			if err != nil {
				t.Fatal(err)
			}
			var dec *name.Info
			if pn := guard.Try(func() { dec, err = name.Decode(data) }); pn != nil {
				t.Fatalf("%s language %#x: Decode: %s", pname, e.ID, pn)
			}
			if err != nil {
				t.Fatalf("%s language %#x: Decode: %v", pname, e.ID, err)
			}
			mine, other := dec.Mac, dec.Windows
			if pi == 1 {
				mine, other = other, mine
			}
			if len(other) != 0 || len(mine) != 1 || mine[e.Tag] == nil || mine[e.Tag].Family != s {
				t.Fatalf("%s language %#x (%q): Decode gives Mac=%v Windows=%v", pname, e.ID, e.Tag, dec.Mac, dec.Windows)
			}
			ptag, err := language.Parse(e.Tag)
			if err != nil {
				t.Fatalf("%s language %#x: %q is not a BCP 47 tag: %v", pname, e.ID, e.Tag, err)
			}
			if k, _, pn := chooseKey(mine, ptag); pn != nil || k != e.Tag {
				t.Fatalf("%s language %#x (%q): Choose returns %q (%v)", pname, e.ID, e.Tag, k, pn)
			}
			var data2 []byte
			if pn := guard.Try(func() { data2 = dec.Encode(1) }); pn != nil {
				t.Fatalf("%s language %#x: Encode: %s", pname, e.ID, pn)
			}
			tab2, err := refname.Parse(data2)
			if err != nil {
				t.Fatalf("%s language %#x: reference walk: %v", pname, e.ID, err)
			}
			back := false
			for _, r := range tab2.Records {
				if r.Platform != plat || listed[r.Language] != e.Tag || r.NameID != 1 || !bytes.Equal(r.Data, d) {
					t.Fatalf("%s language %#x (%q): re-encoded table has record %d/%d/%#x/%d %s", pname, e.ID, e.Tag,
						r.Platform, r.Encoding, r.Language, r.NameID, shortBytes(r.Data))
				}
				back = back || r.Language == e.ID
			}
			if !back {
				t.Fatalf("%s language %#x (%q): id not present after Decode+Encode (%d records)", pname, e.ID, e.Tag, len(tab2.Records))
			}
			stats.CaseIn("langid", stats.Hash(pname, int(e.ID)), true, func() string {
				return fmt.Sprintf("%s %#x <-> %q", pname, e.ID, e.Tag)
			}, pname+"-listed", ifs(len(idsOfTag(tab, e.Tag)) > 1, "tag-with-two-ids", ""), ifs(ptag.String() != e.Tag, "non-canonical-tag", ""))
		}
		// (b) all 65536 ids, 4096 per table
		for base := 0; base < 0x10000; base += 4096 {
			var recs []refname.RawRecord
			want := map[string]string{}
			for L := base; L < base+4096; L++ {
				s, d := str(uint16(L))
				recs = append(recs, refname.RawRecord{Platform: plat, Encoding: enc, Language: uint16(L), NameID: 2, Data: d})
				if tag, ok := listed[uint16(L)]; ok {
					if _, dup := want[tag+"/2"]; !dup { // first id of a tag; later ids of the same tag overwrite: skip those tags below
						want[tag+"/2"] = s
					} else {
						want[tag+"/2"] = "*"
					}
				}
			}
			data, err := refname.Build(0, recs, nil, 0)
			if err != nil {
				t.Fatal(err)
			}
			var dec *name.Info
			if pn := guard.Try(func() { dec, err = name.Decode(data) }); pn != nil {
				t.Fatalf("%s languages %#x..: Decode: %s", pname, base, pn)
			}
			if err != nil {
				t.Fatalf("%s languages %#x..: Decode: %v", pname, base, err)
			}
			mine, other := dec.Mac, dec.Windows
			if pi == 1 {
				mine, other = other, mine
			}
			got, _ := flatten(mine)
			for k, v := range want {
				if v == "*" { // two ids of one tag in the same block: either string is fine
					delete(want, k)
					delete(got, k)
				}
			}
			if d := diffFlat(want, got); d != "" || len(other) != 0 {
				t.Fatalf("%s languages %#x..%#x: %s (other platform: %d tables)", pname, base, base+4095, d, len(other))
			}
			for L := base; L < base+4096; L++ {
				_, ok := listed[uint16(L)]
				stats.CaseIn("langid", stats.Hash(pname, "all", L), ok, nil, ifs(ok, "", pname+"-unlisted-ignored"))
			}
		}
	}
	stats.Exhaustive("langid")
}
