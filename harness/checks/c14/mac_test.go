package c14

import (
	"bytes"
	"fmt"
	"testing"
	"unicode/utf8"

	"golang.org/x/text/encoding/charmap"
	"pgregory.net/rapid"

	"seehuhn.de/go/sfnt/mac"
	"verif/harness/guard"
	"verif/harness/stats"
)

// Mac Roman oracle: golang.org/x/text/encoding/charmap.Macintosh.  The
// library documents (package comment of mac/encoding.go) the variant with
// the Euro sign at 0xDB; charmap.Macintosh has U+20AC there too, and
// U+F8FF (Apple logo) at 0xF0.  macDec/macEnc wrap the oracle so that a
// documented deviation could be entered here; at present there is none.
func macDec(b byte) rune { return charmap.Macintosh.DecodeByte(b) }

func macEnc(r rune) (byte, bool) { return charmap.Macintosh.EncodeRune(r) }

// macRepertoire lists the 256 runes of Mac Roman (oracle side).
var macRepertoire = func() []rune {
	rr := make([]rune, 256)
	for i := range rr {
		rr[i] = macDec(byte(i))
	}
	return rr
}()

func oracleMacEncode(s string) []byte {
	var out []byte
	for _, r := range s {
		b, ok := macEnc(r)
		if !ok {
			b = '?' // documented: unrepresentable runes become question marks
		}
		out = append(out, b)
	}
	return out
}

func oracleMacDecode(b []byte) string {
	rr := make([]rune, len(b))
	for i, c := range b {
		rr[i] = macDec(c)
	}
	return string(rr)
}

// TestC14MacCodec: every byte and every Unicode scalar value.
func TestC14MacCodec(t *testing.T) {
	seen := map[rune]bool{}
	for i := 0; i < 256; i++ {
		b := byte(i)
		want := macDec(b)
		if want == utf8.RuneError || seen[want] {
			t.Fatalf("oracle: byte %#x decodes to %U (duplicate or undefined)", b, want)
		}
		seen[want] = true
		var one rune
		var str string
		var back []byte
		if pn := guard.Try(func() {
			one = mac.DecodeOne(b)
			str = mac.Decode([]byte{b})
			back = mac.Encode(string(want))
		}); pn != nil {
			t.Fatalf("byte %#x: %s", b, pn)
		}
		if one != want {
			t.Fatalf("mac.DecodeOne(%#x) = %U, Mac Roman has %U", b, one, want)
		}
		if str != string(want) {
			t.Fatalf("mac.Decode([%#x]) = %q, Mac Roman has %q", b, str, string(want))
		}
		if !bytes.Equal(back, []byte{b}) {
			t.Fatalf("mac.Encode(%q) = % x, Mac Roman has %#x", string(want), back, b)
		}
		label := "ascii"
		if b >= 128 {
			label = "high"
		}
		stats.CaseIn("mac-bytes", stats.Hash("b", i), true, func() string {
			return fmt.Sprintf("byte %#x <-> %U", b, want)
		}, label)
	}
	stats.Exhaustive("mac-bytes")

	var buf [4]byte
	for r := rune(0); r <= 0x10FFFF; r++ {
		if r >= 0xD800 && r <= 0xDFFF {
			continue
		}
		n := utf8.EncodeRune(buf[:], r)
		got := mac.Encode(string(buf[:n]))
		wb, ok := macEnc(r)
		if !ok {
			wb = '?'
		}
		if len(got) != 1 || got[0] != wb {
			t.Fatalf("mac.Encode(%U) = % x, want %#x (representable: %v)", r, got, wb, ok)
		}
		label := "unrepresentable->?"
		if ok {
			label = "representable"
		}
		// only the representable non-ASCII runes and their neighbours are
		// worth remembering as distinct cases
		nt := ok && r >= 128
		stats.CaseIn("mac-runes", stats.Hash("r", int(r)), nt, func() string {
			return fmt.Sprintf("%U -> %#x", r, wb)
		}, label)
	}
	stats.Exhaustive("mac-runes")
}

// genMacString draws a string over the Mac Roman repertoire.
func genMacString(maxLen int) *rapid.Generator[string] {
	return rapid.Custom(func(t *rapid.T) string {
		n := genLen(maxLen).Draw(t, "len")
		kind := rapid.IntRange(0, 3).Draw(t, "alphabet")
		one := func() rune {
			var b int
			switch kind {
			case 0: // printable ASCII
				b = rapid.IntRange(0x20, 0x7E).Draw(t, "c")
			case 1: // high half
				b = rapid.IntRange(0x80, 0xFF).Draw(t, "c")
			default:
				b = rapid.IntRange(0, 0xFF).Draw(t, "c")
			}
			return macRepertoire[b]
		}
		rr := make([]rune, n)
		if n > 1000 {
			// long strings: a short drawn pattern repeated, with a counter
			// woven in so that long strings differ from each other
			k := rapid.IntRange(1, 9).Draw(t, "patLen")
			pat := make([]rune, k)
			for i := range pat {
				pat[i] = one()
			}
			for i := range rr {
				rr[i] = pat[i%k]
				if i%k == 0 {
					rr[i] = macRepertoire[(i/k)%256]
				}
			}
			return string(rr)
		}
		for i := range rr {
			rr[i] = one()
		}
		return string(rr)
	})
}

// genLen draws a length in 1..max favouring short strings and the boundary.
func genLen(max int) *rapid.Generator[int] {
	return rapid.Custom(func(t *rapid.T) int {
		var n int
		switch rapid.IntRange(0, 9).Draw(t, "lenClass") {
		case 0:
			n = max
		case 1, 2:
			n = rapid.IntRange(1, max).Draw(t, "n")
		case 3, 4:
			n = rapid.IntRange(1, 300).Draw(t, "n")
		default:
			n = rapid.IntRange(1, 24).Draw(t, "n")
		}
		if n > max {
			n = max
		}
		return n
	})
}

// unicodeAlphabet: classes of scalar values for Windows strings.
var uniSpecial = []rune{0, 1, 0x7F, 0x80, 0xFF, 0x100, 0x300, 0x301, 0x20AC, 0xD7FF, 0xE000, 0xF8FF,
	0xFEFF, 0xFFFD, 0xFFFE, 0xFFFF, 0x10000, 0x10001, 0x1F600, 0x2FFFF, 0xE0001, 0xFFFFF, 0x100000, 0x10FFFF}

func genRune() *rapid.Generator[rune] {
	return rapid.Custom(func(t *rapid.T) rune {
		switch rapid.IntRange(0, 7).Draw(t, "runeClass") {
		case 0, 1:
			return rune(rapid.IntRange(0x20, 0x7E).Draw(t, "r"))
		case 2:
			return rapid.SampledFrom(uniSpecial).Draw(t, "r")
		case 3:
			return macRepertoire[rapid.IntRange(0x80, 0xFF).Draw(t, "r")]
		case 4:
			return rune(rapid.IntRange(0x10000, 0x10FFFF).Draw(t, "r"))
		case 5:
			return rune(rapid.IntRange(0x300, 0x36F).Draw(t, "r")) // combining
		default:
			r := rune(rapid.IntRange(0, 0xFFFF).Draw(t, "r"))
			if r >= 0xD800 && r <= 0xDFFF {
				r -= 0x800
			}
			return r
		}
	})
}

// genUniString draws a valid-UTF-8 string of at most maxUnits UTF-16 units.
func genUniString(maxUnits int) *rapid.Generator[string] {
	return rapid.Custom(func(t *rapid.T) string {
		n := genLen(maxUnits).Draw(t, "units")
		var rr []rune
		units := 0
		if n > 1000 {
			// long strings: draw a short pattern and repeat it (cheap to
			// generate and to shrink), then top up
			pat := rapid.SliceOfN(genRune(), 1, 8).Draw(t, "pattern")
			for {
				r := pat[len(rr)%len(pat)]
				w := 1
				if r >= 0x10000 {
					w = 2
				}
				if units+w > n {
					break
				}
				rr = append(rr, r)
				units += w
			}
			for units < n {
				rr = append(rr, 'x')
				units++
			}
			return string(rr)
		}
		for units < n {
			r := genRune().Draw(t, "r")
			w := 1
			if r >= 0x10000 {
				w = 2
			}
			if units+w > n {
				r, w = 'y', 1
			}
			rr = append(rr, r)
			units += w
		}
		return string(rr)
	})
}

// TestC14Codecs: random strings through the Mac Roman codec (both
// directions, including unrepresentable runes).  The UTF-16 codec is not
// exported; it is exercised through the Windows records in TestC14Name
// (encode) and TestC14NameRaw (decode).
func TestC14Codecs(t *testing.T) {
	rapid.Check(t, func(t *rapid.T) {
		switch rapid.IntRange(0, 2).Draw(t, "dir") {
		case 0: // bytes -> string -> bytes
			var b []byte
			if rapid.IntRange(0, 30).Draw(t, "big") == 0 {
				b = rapid.SliceOfN(rapid.Byte(), 0, 70000).Draw(t, "bytes")
			} else {
				b = rapid.SliceOfN(rapid.Byte(), 0, 64).Draw(t, "bytes")
			}
			var s string
			var back []byte
			if pn := guard.Try(func() { s = mac.Decode(b); back = mac.Encode(s) }); pn != nil {
				t.Fatalf("bytes % x: %s", b, pn)
			}
			if want := oracleMacDecode(b); s != want {
				t.Fatalf("mac.Decode(% x) = %q, Mac Roman gives %q", b, s, want)
			}
			if !bytes.Equal(back, b) {
				t.Fatalf("mac.Encode(mac.Decode(% x)) = % x", b, back)
			}
			hi := false
			for _, c := range b {
				hi = hi || c >= 128
			}
			stats.CaseIn("codecs", stats.Hash("d", b), hi, func() string { return fmt.Sprintf("decode % x", b) },
				"mac-decode", ifs(hi, "high-bytes", ""), ifs(len(b) == 0, "empty", ""))
		case 1: // repertoire string -> bytes -> string
			s := genMacString(400).Draw(t, "s")
			var b []byte
			var back string
			if pn := guard.Try(func() { b = mac.Encode(s); back = mac.Decode(b) }); pn != nil {
				t.Fatalf("string %q: %s", s, pn)
			}
			if want := oracleMacEncode(s); !bytes.Equal(b, want) {
				t.Fatalf("mac.Encode(%q) = % x, Mac Roman gives % x", s, b, want)
			}
			if back != s {
				t.Fatalf("mac.Decode(mac.Encode(%q)) = %q", s, back)
			}
			hi := len(s) != len(b)
			stats.CaseIn("codecs", stats.Hash("e", s), hi, func() string { return fmt.Sprintf("encode %q", s) },
				"mac-encode-repertoire", ifs(hi, "non-ascii", ""))
		default: // arbitrary Unicode: '?' replacement, one byte per rune
			s := genUniString(200).Draw(t, "s")
			var b []byte
			if pn := guard.Try(func() { b = mac.Encode(s) }); pn != nil {
				t.Fatalf("string %q: %s", s, pn)
			}
			want := oracleMacEncode(s)
			if !bytes.Equal(b, want) {
				t.Fatalf("mac.Encode(%q) = % x, want % x ('?' for unrepresentable runes)", s, b, want)
			}
			repl := false
			for _, r := range s {
				if _, ok := macEnc(r); !ok {
					repl = true
				}
			}
			stats.CaseIn("codecs", stats.Hash("u", s), repl, func() string { return fmt.Sprintf("encode %q", s) },
				"mac-encode-unicode", ifs(repl, "replaced-by-?", ""))
		}
	})
}

func ifs(c bool, a, b string) string {
	if c {
		return a
	}
	return b
}
