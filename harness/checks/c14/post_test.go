package c14

import (
	"bytes"
	"fmt"
	"reflect"
	"strings"
	"testing"

	xsfnt "golang.org/x/image/font/sfnt"
	"pgregory.net/rapid"
	"seehuhn.de/go/postscript/funit"

	"seehuhn.de/go/sfnt/post"
	"verif/harness/guard"
	"verif/harness/ref/refname"
	"verif/harness/stats"
)

const (
	numStd    = 258
	maxCustom = 65536 - numStd // glyphNameIndex is 16 bits wide: 65278 stored strings
)

var stdIndex = func() map[string]int {
	m := map[string]int{}
	for i, n := range refname.MacGlyphNames {
		m[n] = i
	}
	return m
}()

func describeNames(names []string) string {
	if names == nil {
		return "nil"
	}
	if len(names) > 40 {
		return fmt.Sprintf("%d names, hash %x, first %q … last %q", len(names), stats.Hash(strings.Join(names, "\x00")), names[:12], names[len(names)-6:])
	}
	return fmt.Sprintf("%q", names)
}

// genCustomName draws a glyph name that is not in the standard list.
func genCustomName() *rapid.Generator[string] {
	const nameChars = "abcdefghijklmnopqrstuvwxyzABCDEFGHIJKLMNOPQRSTUVWXYZ0123456789._-"
	return rapid.Custom(func(t *rapid.T) string {
		var n int
		switch rapid.IntRange(0, 11).Draw(t, "nameLenClass") {
		case 0:
			n = rapid.SampledFrom([]int{1, 2, 127, 128, 129, 254, 255}).Draw(t, "n")
		case 1:
			n = rapid.IntRange(1, 255).Draw(t, "n")
		default:
			n = rapid.IntRange(1, 20).Draw(t, "n")
		}
		b := make([]byte, n)
		kind := rapid.IntRange(0, 5).Draw(t, "nameAlphabet")
		switch {
		case n > 40: // cheap long names
			seed := rapid.IntRange(0, 1<<20).Draw(t, "seed")
			for i := range b {
				if kind == 0 {
					b[i] = byte(seed + i*7)
				} else {
					b[i] = nameChars[(seed+i*11)%len(nameChars)]
				}
			}
		case kind == 0: // arbitrary bytes
			for i := range b {
				b[i] = rapid.Byte().Draw(t, "b")
			}
		case kind == 1: // uniXXXX style
			s := fmt.Sprintf("uni%04X", rapid.IntRange(0, 0xFFFF).Draw(t, "u"))
			return s
		default:
			for i := range b {
				b[i] = nameChars[rapid.IntRange(0, len(nameChars)-1).Draw(t, "c")]
			}
		}
		s := string(b)
		if _, std := stdIndex[s]; std {
			s += ".alt"
		}
		return s
	})
}

type postCase struct {
	Info  post.Info
	Class string
}

func genPostCase() *rapid.Generator[*postCase] {
	std := refname.MacGlyphNames[:]
	return rapid.Custom(func(t *rapid.T) *postCase {
		c := &postCase{}
		c.Info.ItalicAngle = float64(int32(rapid.SampledFrom([]int{0, 0, -9 * 65536, 12 * 65536, 1, -1, 32768, 1<<31 - 1, -1 << 31, 123456}).Draw(t, "italic"))) / 65536
		c.Info.UnderlinePosition = funit.Int16(rapid.SampledFrom([]int{0, -50, -100, 32767, -32768, 1}).Draw(t, "ulPos"))
		c.Info.UnderlineThickness = funit.Int16(rapid.SampledFrom([]int{0, 10, 50, 32767, -32768, -1}).Draw(t, "ulThick"))
		c.Info.IsFixedPitch = rapid.Bool().Draw(t, "fixed")

		classes := []string{"nil", "std-exact", "std-prefix", "std-plus", "std-one-changed", "permuted", "mixed", "mixed", "mixed", "custom", "duplicates", "empty"}
		if stats.Thorough() || rapid.IntRange(0, 9).Draw(t, "allowLarge") == 0 {
			classes = append(classes, "large", "max")
		}
		c.Class = rapid.SampledFrom(classes).Draw(t, "class")
		var names []string
		switch c.Class {
		case "nil":
			names = nil
		case "empty":
			names = []string{}
		case "std-exact":
			names = append([]string{}, std...)
		case "std-prefix":
			names = append([]string{}, std[:rapid.IntRange(1, numStd-1).Draw(t, "n")]...)
		case "std-plus":
			names = append([]string{}, std...)
			for i := rapid.IntRange(1, 4).Draw(t, "extra"); i > 0; i-- {
				if rapid.Bool().Draw(t, "extraStd") {
					names = append(names, std[rapid.IntRange(0, numStd-1).Draw(t, "i")])
				} else {
					names = append(names, genCustomName().Draw(t, "name"))
				}
			}
		case "std-one-changed":
			names = append([]string{}, std...)
			i := rapid.IntRange(0, numStd-1).Draw(t, "i")
			if rapid.Bool().Draw(t, "swap") {
				j := (i + 1 + rapid.IntRange(0, numStd-2).Draw(t, "j")) % numStd
				names[i], names[j] = names[j], names[i]
			} else {
				names[i] = genCustomName().Draw(t, "name")
			}
		case "permuted":
			n := rapid.IntRange(2, numStd).Draw(t, "n")
			names = rapid.Permutation(std).Draw(t, "perm")[:n]
		case "mixed":
			n := rapid.IntRange(2, 40).Draw(t, "n")
			names = append(names, ".notdef")
			for i := 1; i < n; i++ {
				if rapid.Bool().Draw(t, "isStd") {
					names = append(names, std[rapid.IntRange(0, numStd-1).Draw(t, "i")])
				} else {
					names = append(names, genCustomName().Draw(t, "name"))
				}
			}
		case "custom":
			n := rapid.IntRange(1, 30).Draw(t, "n")
			for i := 0; i < n; i++ {
				names = append(names, genCustomName().Draw(t, "name"))
			}
			if rapid.IntRange(0, 5).Draw(t, "withEmpty") == 0 {
				names[rapid.IntRange(0, n-1).Draw(t, "i")] = "" // a zero-length Pascal string
			}
		case "duplicates":
			pool := []string{".notdef", "A", "space", genCustomName().Draw(t, "name"), genCustomName().Draw(t, "name")}
			n := rapid.IntRange(2, 30).Draw(t, "n")
			for i := 0; i < n; i++ {
				names = append(names, rapid.SampledFrom(pool).Draw(t, "dup"))
			}
		case "large", "max":
			n := rapid.SampledFrom([]int{300, 1000, 32767 + numStd, 32768 + numStd, 40000}).Draw(t, "n")
			if c.Class == "max" {
				n = rapid.SampledFrom([]int{maxCustom, maxCustom + 1, 65534, 65535}).Draw(t, "n")
			}
			nStd := n - maxCustom
			if nStd < 0 {
				nStd = 0
			}
			nStd += rapid.IntRange(0, 3).Draw(t, "moreStd")
			if nStd > n {
				nStd = n
			}
			prefix := rapid.StringMatching(`[a-z]{1,3}`).Draw(t, "prefix")
			longAt := rapid.IntRange(0, n-1).Draw(t, "longAt")
			stride := rapid.SampledFrom([]int{1, 7, 251}).Draw(t, "stride")
			names = make([]string, n)
			for i := range names {
				// the first nStd positions (spread by stride) get standard names
				if (i*stride)%n < nStd {
					names[i] = std[(i*13)%numStd]
				} else if i == longAt {
					names[i] = strings.Repeat("L", 255)
				} else {
					names[i] = fmt.Sprintf("%s%d", prefix, i)
				}
			}
			// enforce the index limit exactly
			custom := 0
			for i, s := range names {
				if _, ok := stdIndex[s]; !ok {
					custom++
					if custom > maxCustom {
						names[i] = std[i%numStd]
					}
				}
			}
		}
		c.Info.Names = names
		return c
	})
}

// xGlyphNames lets x/image read glyph names from a container with the
// given post table.  idx selects the glyphs to ask for.
func xGlyphNames(postTab []byte, numGlyphs int, idx []int) ([]string, []error, error) {
	f, err := xparse(numGlyphs, minimalName, postTab)
	if err != nil {
		return nil, nil, err
	}
	var buf xsfnt.Buffer
	names := make([]string, len(idx))
	errs := make([]error, len(idx))
	for k, i := range idx {
		names[k], errs[k] = f.GlyphName(&buf, xsfnt.GlyphIndex(i))
	}
	return names, errs, nil
}

func TestC14Post(t *testing.T) {
	gen := genPostCase()
	rapid.Check(t, func(t *rapid.T) {
		c := gen.Draw(t, "post")
		names := c.Info.Names
		info := c.Info // Encode must not modify the input
		info.Names = append([]string(nil), names...)
		if names == nil {
			info.Names = nil
		} else if len(names) == 0 {
			info.Names = []string{}
		}
		fail := func(format string, args ...any) {
			t.Fatalf("post.Info{ItalicAngle: %v, UnderlinePosition: %d, UnderlineThickness: %d, IsFixedPitch: %v, Names: %s} (class %s)\n  %s",
				c.Info.ItalicAngle, c.Info.UnderlinePosition, c.Info.UnderlineThickness, c.Info.IsFixedPitch,
				describeNames(names), c.Class, fmt.Sprintf(format, args...))
		}

		var data []byte
		if pn := guard.Try(func() { data = info.Encode() }); pn != nil {
			fail("Encode: %s", pn)
		}
		if !reflect.DeepEqual(info.Names, names) {
			fail("Encode modified Info.Names")
		}

		// the documented choice of format
		wantVersion := uint32(0x00020000)
		isStd := len(names) == numStd
		for i := 0; isStd && i < numStd; i++ {
			isStd = names[i] == refname.MacGlyphNames[i]
		}
		switch {
		case names == nil:
			wantVersion = 0x00030000
		case isStd:
			wantVersion = 0x00010000
		}

		// independent reader
		ref, err := refname.ParsePost(data)
		if err != nil {
			fail("reference reader on the encoded table (% x …): %v", data[:min(len(data), 40)], err)
		}
		if ref.Version != wantVersion {
			fail("table version %#08x written, expected %#08x", ref.Version, wantVersion)
		}
		if float64(ref.ItalicAngle)/65536 != c.Info.ItalicAngle || ref.UnderlinePosition != int16(c.Info.UnderlinePosition) ||
			ref.UnderlineThickness != int16(c.Info.UnderlineThickness) || (ref.IsFixedPitch != 0) != c.Info.IsFixedPitch {
			fail("header fields in the table: italic %d/65536, underline %d/%d, fixed %d", ref.ItalicAngle, ref.UnderlinePosition, ref.UnderlineThickness, ref.IsFixedPitch)
		}
		if wantVersion != 0x00030000 {
			if len(ref.Names) != len(names) {
				fail("reference reader sees %d glyph names, %d were written", len(ref.Names), len(names))
			}
			for i := range names {
				if ref.Names[i] != names[i] {
					fail("reference reader: glyph %d is %q, written as %q (name index %v)", i, ref.Names[i], names[i], idxAt(ref, i))
				}
			}
		}
		nStdNames, nCustom := 0, 0
		if wantVersion == 0x00020000 {
			for _, idx := range ref.Index {
				if int(idx) < numStd {
					nStdNames++
				} else {
					nCustom++
				}
			}
		}

		// the library's reader
		var back *post.Info
		if pn := guard.Try(func() { back, err = post.Read(guard.Source(data)) }); pn != nil {
			fail("Read: %s", pn)
		}
		if err != nil {
			fail("Read(Encode(info)): %v", err)
		}
		if (back.Names == nil) != (names == nil) || len(back.Names) != len(names) {
			fail("Read(Encode(info)).Names has %d entries (nil: %v), want %d (nil: %v)", len(back.Names), back.Names == nil, len(names), names == nil)
		}
		for i := range names {
			if back.Names[i] != names[i] {
				fail("Read(Encode(info)).Names[%d] = %q, want %q", i, back.Names[i], names[i])
			}
		}
		if back.ItalicAngle != c.Info.ItalicAngle || back.UnderlinePosition != c.Info.UnderlinePosition ||
			back.UnderlineThickness != c.Info.UnderlineThickness || back.IsFixedPitch != c.Info.IsFixedPitch {
			fail("Read(Encode(info)) header fields: %v %d %d %v", back.ItalicAngle, back.UnderlinePosition, back.UnderlineThickness, back.IsFixedPitch)
		}
		// fixed point
		var data2 []byte
		if pn := guard.Try(func() { data2 = back.Encode() }); pn != nil {
			fail("Encode (2nd): %s", pn)
		}
		if !bytes.Equal(data, data2) {
			fail("Encode(Read(Encode(info))) differs from Encode(info): %d vs %d bytes", len(data2), len(data))
		}

		// x/image as a further reader (format 2 lookups cost O(index), so
		// only a sample of glyphs; x/image refuses indices above 32767)
		xChecked, xAbstain := 0, 0
		if n := len(names); n > 0 || names == nil {
			numGlyphs := n
			if names == nil {
				numGlyphs = 3
			}
			idx := []int{0, numGlyphs - 1, numGlyphs / 2}
			for k := 0; k < 5; k++ {
				idx = append(idx, rapid.IntRange(0, numGlyphs-1).Draw(t, "xGlyph"))
			}
			xn, xe, err := xGlyphNames(data, numGlyphs, idx)
			if err != nil {
				fail("x/image rejects a font with this post table: %v", err)
			}
			for k, i := range idx {
				want := ""
				if names != nil {
					want = names[i]
				}
				if xe[k] != nil {
					if wantVersion == 0x00020000 && int(ref.Index[i]) > 32767 {
						xAbstain++
						continue
					}
					fail("x/image GlyphName(%d): %v (want %q)", i, xe[k], want)
				}
				if xn[k] != want {
					fail("x/image GlyphName(%d) = %q, written as %q", i, xn[k], want)
				}
				xChecked++
			}
		}

		nt := wantVersion == 0x00020000 && nStdNames > 0 && nCustom > 0
		long := false
		nonASCII := false
		for _, s := range names {
			long = long || len(s) >= 128
			for i := 0; i < len(s); i++ {
				nonASCII = nonASCII || s[i] >= 0x80 || s[i] < 0x20
			}
		}
		stats.CaseIn("post", stats.Hash(describeNames(names), c.Info.ItalicAngle, int(c.Info.UnderlinePosition)), nt,
			func() string { return c.Class + ": " + describeNames(names) },
			fmt.Sprintf("format-%d", wantVersion>>16), "class-"+c.Class,
			ifs(long, "name>=128-bytes", ""), ifs(nonASCII, "name-with-arbitrary-bytes", ""),
			ifs(len(names) > 32767+numStd, "index>32767", ""), ifs(nCustom == maxCustom, "custom-names-at-limit", ""),
			ifs(xChecked > 0, "ximage-glyphname", ""), ifs(xAbstain > 0, "ximage-abstains", ""))
	})
}

func idxAt(p *refname.Post, i int) any {
	if i < len(p.Index) {
		return p.Index[i]
	}
	return "-"
}

// TestC14PostRaw: version 2 tables written by the harness, with strings
// stored in an order different from first use and with unused strings, are
// read as the specification says.
func TestC14PostRaw(t *testing.T) {
	rapid.Check(t, func(t *rapid.T) {
		nStr := rapid.IntRange(0, 12).Draw(t, "nStrings")
		p := &refname.Post{Version: 0x00020000, ItalicAngle: int32(rapid.IntRange(-1<<20, 1<<20).Draw(t, "italic"))}
		for i := 0; i < nStr; i++ {
			p.Strings = append(p.Strings, genCustomName().Draw(t, "name"))
		}
		n := rapid.IntRange(0, 40).Draw(t, "numGlyphs")
		usedAll := map[int]bool{}
		for i := 0; i < n; i++ {
			if nStr == 0 || rapid.Bool().Draw(t, "std") {
				p.Index = append(p.Index, uint16(rapid.IntRange(0, numStd-1).Draw(t, "stdIdx")))
			} else {
				k := rapid.IntRange(0, nStr-1).Draw(t, "strIdx")
				usedAll[k] = true
				p.Index = append(p.Index, uint16(numStd+k))
			}
		}
		data := refname.BuildPost(p)
		ref, err := refname.ParsePost(data)
		if err != nil {
			t.Fatalf("generator: %v", err)
		}
		var got *post.Info
		if pn := guard.Try(func() { got, err = post.Read(guard.Source(data)) }); pn != nil {
			t.Fatalf("post table index=%v strings=%q: Read: %s", p.Index, p.Strings, pn)
		}
		if err != nil {
			t.Fatalf("post table index=%v strings=%q: Read: %v", p.Index, p.Strings, err)
		}
		if len(got.Names) != n {
			t.Fatalf("post table index=%v strings=%q: Read gives %d names", p.Index, p.Strings, len(got.Names))
		}
		for i := range ref.Names {
			if got.Names[i] != ref.Names[i] {
				t.Fatalf("post table index=%v strings=%q: glyph %d read as %q, reference %q", p.Index, p.Strings, i, got.Names[i], ref.Names[i])
			}
		}
		// re-encoding keeps the names
		var data2 []byte
		if pn := guard.Try(func() { data2 = got.Encode() }); pn != nil {
			t.Fatalf("post table index=%v strings=%q: Encode: %s", p.Index, p.Strings, pn)
		}
		ref2, err := refname.ParsePost(data2)
		if err != nil {
			t.Fatalf("post table index=%v strings=%q: reference reader on the re-encoded table: %v", p.Index, p.Strings, err)
		}
		if n > 0 && !reflect.DeepEqual(ref2.Names, ref.Names) && !(ref2.Version == 0x00010000 && reflect.DeepEqual(ref.Names, refname.MacGlyphNames[:])) {
			t.Fatalf("post table index=%v strings=%q: re-encoded names %q", p.Index, p.Strings, ref2.Names)
		}
		outOfOrder := false
		last := -1
		for _, idx := range p.Index {
			if int(idx) >= numStd {
				if int(idx) < last {
					outOfOrder = true
				}
				last = int(idx)
			}
		}
		stats.CaseIn("post-raw", stats.Hash(fmt.Sprint(p.Index), strings.Join(p.Strings, "\x00")), len(usedAll) > 0 && len(usedAll) < n,
			func() string { return fmt.Sprintf("index=%v strings=%q", p.Index, p.Strings) },
			ifs(outOfOrder, "strings-used-out-of-order", ""), ifs(len(usedAll) < nStr, "unused-strings", ""))
	})
}

// TestC14PostStd: the 258 standard names, one by one and as a list, in the
// reference list, in x/image's list and in the library.
func TestC14PostStd(t *testing.T) {
	std := refname.MacGlyphNames[:]
	// x/image's built-in list through a version 1 table
	v1 := refname.BuildPost(&refname.Post{Version: 0x00010000})
	idx := make([]int, numStd)
	for i := range idx {
		idx[i] = i
	}
	xn, xe, err := xGlyphNames(v1, numStd, idx)
	if err != nil {
		t.Fatal(err)
	}
	for i := range std {
		if xe[i] != nil || xn[i] != std[i] {
			t.Fatalf("standard name %d: reference list %q, x/image %q (%v)", i, std[i], xn[i], xe[i])
		}
	}
	// the library reads a version 1 table as the same list
	var got *post.Info
	if pn := guard.Try(func() { got, err = post.Read(bytes.NewReader(v1)) }); pn != nil || err != nil {
		t.Fatalf("Read of a version 1 table: %v %v", pn, err)
	}
	if !reflect.DeepEqual(got.Names, std) {
		t.Fatalf("Read of a version 1 table gives %q", got.Names)
	}
	// ... and writes the exact list as version 1
	data := (&post.Info{Names: append([]string{}, std...)}).Encode()
	if ref, err := refname.ParsePost(data); err != nil || ref.Version != 0x00010000 {
		t.Fatalf("the standard list is not written as version 1: %v %v", ref, err)
	}
	// each standard name alone: version 2 with the standard index, no string
	for i, nm := range std {
		var data []byte
		if pn := guard.Try(func() { data = (&post.Info{Names: []string{nm}}).Encode() }); pn != nil {
			t.Fatalf("Encode([%q]): %s", nm, pn)
		}
		ref, err := refname.ParsePost(data)
		if err != nil {
			t.Fatalf("Encode([%q]): reference reader: %v", nm, err)
		}
		if ref.Version != 0x00020000 || len(ref.Index) != 1 || ref.Names[0] != nm {
			t.Fatalf("Encode([%q]): version %#x index %v names %q", nm, ref.Version, ref.Index, ref.Names)
		}
		if int(ref.Index[0]) != i || len(ref.Strings) != 0 {
			t.Fatalf("Encode([%q]): standard name %d stored with index %d and %d strings", nm, i, ref.Index[0], len(ref.Strings))
		}
		// reading index i on its own
		raw := refname.BuildPost(&refname.Post{Version: 0x00020000, Index: []uint16{uint16(i)}})
		var one *post.Info
		if pn := guard.Try(func() { one, err = post.Read(bytes.NewReader(raw)) }); pn != nil || err != nil {
			t.Fatalf("Read of index %d: %v %v", i, pn, err)
		}
		if len(one.Names) != 1 || one.Names[0] != nm {
			t.Fatalf("Read of standard index %d gives %q, want %q", i, one.Names, nm)
		}
		stats.CaseIn("post-std", stats.Hash("std", i), true, func() string { return fmt.Sprintf("%d %q", i, nm) })
	}
	stats.Exhaustive("post-std")
}
