package c14

import (
	"sort"

	xsfnt "golang.org/x/image/font/sfnt"
)

// buildFont wraps a "name" and a "post" table into a minimal TrueType
// container (blank glyphs) that golang.org/x/image/font/sfnt accepts, so
// that x/image can serve as second, independent reader of the two tables.
func buildFont(numGlyphs int, nameTab, postTab []byte) []byte {
	put16 := func(b []byte, o, v int) { b[o], b[o+1] = byte(v>>8), byte(v) }
	put32 := func(b []byte, o int, v uint32) {
		b[o], b[o+1], b[o+2], b[o+3] = byte(v>>24), byte(v>>16), byte(v>>8), byte(v)
	}
	head := make([]byte, 54)
	put32(head, 0, 0x00010000)
	put32(head, 12, 0x5F0F3CF5)
	put16(head, 18, 1000)
	hhea := make([]byte, 36)
	put32(hhea, 0, 0x00010000)
	put16(hhea, 34, 1)
	maxp := make([]byte, 32)
	put32(maxp, 0, 0x00010000)
	put16(maxp, 4, numGlyphs)
	hmtx := make([]byte, 4+2*(numGlyphs-1))
	loca := make([]byte, 2*(numGlyphs+1))
	cmap := make([]byte, 12+24)
	put16(cmap, 2, 1)
	put16(cmap, 4, 3)
	put16(cmap, 6, 1)
	put32(cmap, 8, 12)
	st := cmap[12:]
	put16(st, 0, 4)
	put16(st, 2, 24)
	put16(st, 6, 2)
	put16(st, 8, 2)
	put16(st, 14, 0xFFFF)
	put16(st, 18, 0xFFFF)
	put16(st, 20, 1)
	tabs := map[string][]byte{
		"cmap": cmap, "glyf": nil, "head": head, "hhea": hhea, "hmtx": hmtx,
		"loca": loca, "maxp": maxp, "name": nameTab, "post": postTab,
	}
	var tags []string
	for t := range tabs {
		tags = append(tags, t)
	}
	sort.Strings(tags)
	out := make([]byte, 12+16*len(tags))
	put32(out, 0, 0x00010000)
	put16(out, 4, len(tags))
	for i, t := range tags {
		for len(out)%4 != 0 {
			out = append(out, 0)
		}
		copy(out[12+16*i:], t)
		put32(out, 12+16*i+8, uint32(len(out)))
		put32(out, 12+16*i+12, uint32(len(tabs[t])))
		out = append(out, tabs[t]...)
	}
	return out
}

func xparse(numGlyphs int, nameTab, postTab []byte) (*xsfnt.Font, error) {
	return xsfnt.Parse(buildFont(numGlyphs, nameTab, postTab))
}

var minimalPost = func() []byte {
	b := make([]byte, 32)
	b[1] = 3
	return b
}()

var minimalName = []byte{0, 0, 0, 0, 0, 6}
