package c14

import (
	"fmt"
	"go/ast"
	"go/parser"
	"go/token"
	"os"
	"path/filepath"
	"strconv"
	"sync"
)

// The library keeps its tag tables in unexported map literals.  The check
// reads them from the source tree it is built against (VERIF_REPO, default
// /repo) so that "every entry of the library's tables" is enumerated without
// adding hooks to the repository.

type kv struct {
	Key string // string keys verbatim; integer keys in decimal
	Val string
}

func repoDir() string {
	if d := os.Getenv("VERIF_REPO"); d != "" {
		return d
	}
	return "/repo"
}

// loadMapLiteral returns the entries of the package-level map literal
// `var name = map[K]string{...}` in source order.
func loadMapLiteral(rel, name string) ([]kv, error) {
	path := filepath.Join(repoDir(), rel)
	fset := token.NewFileSet()
	f, err := parser.ParseFile(fset, path, nil, 0)
	if err != nil {
		return nil, err
	}
	for _, d := range f.Decls {
		gd, ok := d.(*ast.GenDecl)
		if !ok || gd.Tok != token.VAR {
			continue
		}
		for _, s := range gd.Specs {
			vs := s.(*ast.ValueSpec)
			for i, id := range vs.Names {
				if id.Name != name || i >= len(vs.Values) {
					continue
				}
				cl, ok := vs.Values[i].(*ast.CompositeLit)
				if !ok {
					return nil, fmt.Errorf("%s: %s is not a composite literal", path, name)
				}
				var res []kv
				for _, e := range cl.Elts {
					p, ok := e.(*ast.KeyValueExpr)
					if !ok {
						return nil, fmt.Errorf("%s: %s: element without key", path, name)
					}
					k, err := litString(p.Key)
					if err != nil {
						return nil, fmt.Errorf("%s: %s: key: %v", path, name, err)
					}
					v, err := litString(p.Value)
					if err != nil {
						return nil, fmt.Errorf("%s: %s: value: %v", path, name, err)
					}
					res = append(res, kv{k, v})
				}
				return res, nil
			}
		}
	}
	return nil, fmt.Errorf("%s: map literal %s not found", path, name)
}

func litString(e ast.Expr) (string, error) {
	bl, ok := e.(*ast.BasicLit)
	if !ok {
		return "", fmt.Errorf("not a basic literal (%T)", e)
	}
	switch bl.Kind {
	case token.STRING:
		return strconv.Unquote(bl.Value)
	case token.INT:
		n, err := strconv.ParseInt(bl.Value, 0, 64)
		if err != nil {
			return "", err
		}
		return strconv.FormatInt(n, 10), nil
	}
	return "", fmt.Errorf("unexpected literal kind %v", bl.Kind)
}

type langEntry struct {
	ID  uint16
	Tag string
}

type tagTables struct {
	mac, win      []langEntry // platform language id -> BCP 47 (source order)
	scripts, lang []kv        // OpenType tag -> BCP 47 subtag (source order)
	err           error
}

var (
	ttOnce sync.Once
	tt     tagTables
)

func loadTables() *tagTables {
	ttOnce.Do(func() {
		conv := func(in []kv) ([]langEntry, error) {
			var out []langEntry
			for _, e := range in {
				n, err := strconv.Atoi(e.Key)
				if err != nil || n < 0 || n > 0xFFFF {
					return nil, fmt.Errorf("language id %q out of range", e.Key)
				}
				out = append(out, langEntry{uint16(n), e.Val})
			}
			return out, nil
		}
		var raw []kv
		if raw, tt.err = loadMapLiteral("name/locale.go", "appleBCP"); tt.err != nil {
			return
		}
		if tt.mac, tt.err = conv(raw); tt.err != nil {
			return
		}
		if raw, tt.err = loadMapLiteral("name/locale.go", "msBCP"); tt.err != nil {
			return
		}
		if tt.win, tt.err = conv(raw); tt.err != nil {
			return
		}
		if tt.scripts, tt.err = loadMapLiteral("opentype/gtab/locale.go", "scriptBcp47"); tt.err != nil {
			return
		}
		tt.lang, tt.err = loadMapLiteral("opentype/gtab/locale.go", "langBcp47")
	})
	return &tt
}
