package c14

import (
	"bytes"
	"fmt"
	"reflect"
	"sort"
	"strings"
	"testing"

	xsfnt "golang.org/x/image/font/sfnt"
	"golang.org/x/text/language"
	"pgregory.net/rapid"

	"seehuhn.de/go/sfnt/name"
	"verif/harness/guard"
	"verif/harness/ref/refname"
	"verif/harness/stats"
)

// nameField maps the name ids that have a field in name.Table to the field
// name (OpenType "name" table, name IDs; id 15 is reserved).  Ids without
// a field live in Table.Extra.
var nameField = map[uint16]string{
	0: "Copyright", 1: "Family", 2: "Subfamily", 3: "Identifier", 4: "FullName",
	5: "Version", 6: "PostScriptName", 7: "Trademark", 8: "Manufacturer",
	9: "Designer", 10: "Description", 11: "VendorURL", 12: "DesignerURL",
	13: "License", 14: "LicenseURL", 16: "TypographicFamily",
	17: "TypographicSubfamily", 18: "MacFullName", 19: "SampleText",
	20: "CIDFontName", 21: "WWSFamily", 22: "WWSSubfamily",
	23: "LightBackgroundPalette", 24: "DarkBackgroundPalette",
	25: "VariationsPostScriptName",
}

// langModel is one language of one platform: name id -> string.
type langModel struct {
	Tag   string
	Names map[uint16]string
}

func (l langModel) ids() []uint16 {
	var ids []uint16
	for id := range l.Names {
		ids = append(ids, id)
	}
	sort.Slice(ids, func(i, j int) bool { return ids[i] < ids[j] })
	return ids
}

type nameModel struct {
	Mac, Win []langModel // distinct tags, sorted by tag
	Crossing bool        // the last string stored ends beyond byte 65535 of the storage
}

func (m *nameModel) String() string {
	var sb strings.Builder
	for pi, p := range [][]langModel{m.Mac, m.Win} {
		for _, l := range p {
			fmt.Fprintf(&sb, "%s[%q]:", []string{"Mac", "Windows"}[pi], l.Tag)
			for _, id := range l.ids() {
				s := l.Names[id]
				if len(s) > 80 {
					fmt.Fprintf(&sb, " %d=(%d bytes, hash %x)%q…", id, len(s), stats.Hash(s), s[:40])
				} else {
					fmt.Fprintf(&sb, " %d=%q", id, s)
				}
			}
			sb.WriteString("; ")
		}
	}
	return sb.String()
}

func toTables(ls []langModel) name.Tables {
	res := name.Tables{}
	for _, l := range ls {
		tb := &name.Table{}
		v := reflect.ValueOf(tb).Elem()
		for id, s := range l.Names {
			if f, ok := nameField[id]; ok {
				v.FieldByName(f).SetString(s)
			} else {
				if tb.Extra == nil {
					tb.Extra = map[name.ID]string{}
				}
				tb.Extra[name.ID(id)] = s
			}
		}
		res[l.Tag] = tb
	}
	return res
}

// flatten reads name.Tables through the exported fields only.  Empty
// strings are "absent".  An Extra entry for an id that has a field is
// reported in anomalies.
func flatten(tt name.Tables) (flat map[string]string, anomalies []string) {
	flat = map[string]string{}
	for tag, tb := range tt {
		if tb == nil {
			anomalies = append(anomalies, fmt.Sprintf("nil table for %q", tag))
			continue
		}
		v := reflect.ValueOf(tb).Elem()
		for id, f := range nameField {
			if s := v.FieldByName(f).String(); s != "" {
				flat[fmt.Sprintf("%s/%d", tag, id)] = s
			}
		}
		for id, s := range tb.Extra {
			if _, ok := nameField[uint16(id)]; ok {
				anomalies = append(anomalies, fmt.Sprintf("%q: Extra[%d] although the id has a field", tag, id))
				continue
			}
			if s != "" {
				flat[fmt.Sprintf("%s/%d", tag, id)] = s
			}
		}
	}
	return flat, anomalies
}

func flatModel(ls []langModel) map[string]string {
	flat := map[string]string{}
	for _, l := range ls {
		for id, s := range l.Names {
			if s != "" {
				flat[fmt.Sprintf("%s/%d", l.Tag, id)] = s
			}
		}
	}
	return flat
}

func diffFlat(want, got map[string]string) string {
	var keys []string
	for k := range want {
		keys = append(keys, k)
	}
	for k := range got {
		if _, ok := want[k]; !ok {
			keys = append(keys, k)
		}
	}
	sort.Strings(keys)
	var out []string
	for _, k := range keys {
		w, wok := want[k]
		g, gok := got[k]
		switch {
		case !gok:
			out = append(out, fmt.Sprintf("%s lost (was %s)", k, short(w)))
		case !wok:
			out = append(out, fmt.Sprintf("%s appeared (%s)", k, short(g)))
		case w != g:
			out = append(out, fmt.Sprintf("%s changed: %s -> %s", k, short(w), short(g)))
		}
		if len(out) >= 5 {
			break
		}
	}
	return strings.Join(out, "; ")
}

func short(s string) string {
	if len(s) > 60 {
		return fmt.Sprintf("%q…(%d bytes)", s[:60], len(s))
	}
	return fmt.Sprintf("%q", s)
}

// idsOfTag returns the platform language ids that the library's table maps
// to tag.
func idsOfTag(tab []langEntry, tag string) []uint16 {
	var res []uint16
	for _, e := range tab {
		if e.Tag == tag {
			res = append(res, e.ID)
		}
	}
	return res
}

func uniqueTags(tab []langEntry) []string {
	seen := map[string]bool{}
	var res []string
	for _, e := range tab {
		if !seen[e.Tag] {
			seen[e.Tag] = true
			res = append(res, e.Tag)
		}
	}
	return res
}

const (
	maxStorage = 65535 // offsets and the storage are addressed with 16 bits
	maxRecords = 5400  // 6+12n must fit into the 16-bit storageOffset
)

var extraIDs = []int{15, 26, 27, 255, 256, 257, 0x7FFF, 0x8000, 0xFFFE, 0xFFFF}

// genNameModel draws a name.Info inside the capacity of the format.
func genNameModel(tt *tagTables) *rapid.Generator[*nameModel] {
	macTags, winTags := uniqueTags(tt.mac), uniqueTags(tt.win)
	dupTags := func(tags []string, label string) []string {
		tab := tt.mac
		if label == "winTag" {
			tab = tt.win
		}
		var res []string
		for _, tg := range tags {
			if len(idsOfTag(tab, tg)) > 1 {
				res = append(res, tg)
			}
		}
		return res
	}
	return rapid.Custom(func(t *rapid.T) *nameModel {
		m := &nameModel{}
		storage, records := 0, 0
		stored := map[string]bool{} // encoded byte strings already in storage
		var poolMac, poolWin []string
		counts := []int{0, 1, 2, 2, 3, 3, 6, 12}
		// size class of the case: most tables hold short strings, some a
		// few long ones, few a string of the maximal length
		maxLen := rapid.SampledFrom([]int{24, 24, 24, 300, 300, 300, 3000, 32767}).Draw(t, "maxLen")
		nMac := rapid.SampledFrom(counts).Draw(t, "nMac")
		nWin := rapid.SampledFrom(counts).Draw(t, "nWin")
		if rapid.IntRange(0, 39).Draw(t, "allLangs") == 0 {
			nMac, nWin = len(macTags), len(winTags)
		}
		// "crossing" class: the string storage of a name table may be longer
		// than 64 KiB - offsets are 16 bits, so only the *start* of every
		// string has to lie below 65536.  One Windows language, short strings,
		// and as its highest name id one string that starts below 65536 and
		// ends beyond (it is the last one stored)
		crossing := rapid.IntRange(0, 11).Draw(t, "crossing64K") == 0
		if crossing {
			maxLen = 24
			nWin = 1
			nMac = rapid.IntRange(0, 2).Draw(t, "nMacCrossing")
		}
		if nMac+nWin == 0 {
			nWin = 1
		}
		pick := func(tags []string, n int, label string) []string {
			if n >= len(tags) {
				return append([]string(nil), tags...)
			}
			seen := map[string]bool{}
			var res []string
			for len(res) < n {
				var tg string
				if rapid.IntRange(0, 4).Draw(t, label+"En") == 0 {
					// English variants matter for Choose
					var en []string
					for _, x := range tags {
						if x == "en" || strings.HasPrefix(x, "en-") {
							en = append(en, x)
						}
					}
					tg = rapid.SampledFrom(en).Draw(t, label)
				} else if dup := dupTags(tags, label); len(dup) > 0 && rapid.IntRange(0, 5).Draw(t, label+"Dup") == 0 {
					tg = rapid.SampledFrom(dup).Draw(t, label)
				} else {
					tg = rapid.SampledFrom(tags).Draw(t, label)
				}
				if !seen[tg] {
					seen[tg] = true
					res = append(res, tg)
				}
			}
			return res
		}
		build := func(tags []string, tab []langEntry, isMac bool) []langModel {
			var res []langModel
			for _, tag := range tags {
				mult := len(idsOfTag(tab, tag))
				var ids []int
				switch rapid.IntRange(0, 5).Draw(t, "idSet") {
				case 0:
					ids = []int{1, 2, 4, 6}
				case 1:
					for id := 0; id <= 25; id++ {
						ids = append(ids, id)
					}
				case 2:
					ids = rapid.SliceOfNDistinct(rapid.SampledFrom(extraIDs), 1, 4, rapid.ID[int]).Draw(t, "extraIDs")
					ids = append(ids, 1)
				case 3:
					ids = rapid.SliceOfNDistinct(rapid.IntRange(0, 65535), 1, 6, rapid.ID[int]).Draw(t, "anyIDs")
				default:
					ids = rapid.SliceOfNDistinct(rapid.IntRange(0, 27), 1, 5, rapid.ID[int]).Draw(t, "ids")
				}
				l := langModel{Tag: tag, Names: map[uint16]string{}}
				for _, id := range ids {
					if records+mult > maxRecords || storage >= maxStorage-2 {
						break
					}
					var s string
					pool := &poolWin
					if isMac {
						pool = &poolMac
					}
					if len(*pool) > 0 && rapid.IntRange(0, 2).Draw(t, "reuse") == 0 {
						s = rapid.SampledFrom(*pool).Draw(t, "pooled")
					} else if isMac {
						s = genMacString(maxLen).Draw(t, "macStr")
					} else {
						s = genUniString(maxLen).Draw(t, "winStr")
					}
					var enc []byte
					if isMac {
						enc = oracleMacEncode(s)
					} else {
						enc = refname.EncodeUTF16BE(s)
					}
					if !stored[string(enc)] {
						room := maxStorage - storage
						if len(enc) > room {
							// cut to the remaining room (whole runes)
							rr := []rune(s)
							for len(enc) > room && len(rr) > 1 {
								rr = rr[:len(rr)*room/len(enc)]
								if len(rr) == 0 {
									rr = []rune{'z'}
								}
								s = string(rr)
								if isMac {
									enc = oracleMacEncode(s)
								} else {
									enc = refname.EncodeUTF16BE(s)
								}
							}
							if len(enc) > room {
								break
							}
						}
						if !stored[string(enc)] {
							stored[string(enc)] = true
							storage += len(enc)
						}
					}
					*pool = append(*pool, s)
					l.Names[uint16(id)] = s
					records += mult
				}
				if len(l.Names) > 0 {
					res = append(res, l)
				}
			}
			sort.Slice(res, func(i, j int) bool { return res[i].Tag < res[j].Tag })
			return res
		}
		macPick, winPick := pick(macTags, nMac, "macTag"), pick(winTags, nWin, "winTag")
		// a tag that both platforms use, placed so that its Macintosh records
		// are the last Macintosh records and its Windows records the first
		// Windows records of the sorted table (records of the two platforms
		// for one language then stand next to each other)
		var both []string
		for _, a := range macTags {
			for _, b := range winTags {
				if a == b {
					both = append(both, a)
				}
			}
		}
		if len(both) > 0 && rapid.IntRange(0, 7).Draw(t, "sharedTagAtBoundary") == 0 {
			tag := rapid.SampledFrom(both).Draw(t, "sharedTag")
			maxOf := func(tab []langEntry, tg string) int {
				v := -1
				for _, id := range idsOfTag(tab, tg) {
					if int(id) > v {
						v = int(id)
					}
				}
				return v
			}
			minOf := func(tab []langEntry, tg string) int {
				v := 1 << 20
				for _, id := range idsOfTag(tab, tg) {
					if int(id) < v {
						v = int(id)
					}
				}
				return v
			}
			keepMac := []string{tag}
			for _, tg := range macPick {
				if tg != tag && maxOf(tt.mac, tg) < minOf(tt.mac, tag) {
					keepMac = append(keepMac, tg)
				}
			}
			keepWin := []string{tag}
			for _, tg := range winPick {
				if tg != tag && minOf(tt.win, tg) > maxOf(tt.win, tag) {
					keepWin = append(keepWin, tg)
				}
			}
			macPick, winPick = keepMac, keepWin
		}
		m.Mac = build(macPick, tt.mac, true)
		m.Win = build(winPick, tt.win, false)
		if crossing && len(m.Win) == 1 && storage < 65000 {
			maxID := 0
			for id := range m.Win[0].Names {
				if int(id) > maxID {
					maxID = int(id)
				}
			}
			minUnits := (65536-storage)/2 + 1
			if maxID < 65535 && minUnits <= 32767 {
				units := rapid.IntRange(minUnits, 32767).Draw(t, "crossingUnits")
				rr := make([]rune, units)
				for i := range rr {
					rr[i] = rune(0x4E00 + i%997) // not a string stored before
				}
				m.Win[0].Names[uint16(maxID+1)] = string(rr)
				m.Crossing = true
			}
		}
		return m
	})
}

type recKey struct {
	Platform, Language, NameID uint16
}

// checkEncoded walks the bytes written by Encode with the reference reader
// and compares the records with the model.
func checkEncoded(tt *tagTables, m *nameModel, data []byte, winEnc uint16) (tab *refname.Table, shared bool, err error) {
	tab, err = refname.Parse(data)
	if err != nil {
		return nil, false, err
	}
	if tab.Version != 0 {
		return nil, false, fmt.Errorf("version %d written", tab.Version)
	}
	if tab.StorageOffset != 6+12*len(tab.Records) {
		return nil, false, fmt.Errorf("storage offset %d, records end at %d", tab.StorageOffset, 6+12*len(tab.Records))
	}
	if err := tab.CheckSorted(); err != nil {
		return nil, false, err
	}
	// expected content per (platform, language id, name id)
	want := map[recKey][]byte{}
	langTag := map[[2]uint16]string{}
	for _, l := range m.Mac {
		for _, L := range idsOfTag(tt.mac, l.Tag) {
			langTag[[2]uint16{1, L}] = l.Tag
			for id, s := range l.Names {
				want[recKey{1, L, id}] = oracleMacEncode(s)
			}
		}
	}
	for _, l := range m.Win {
		for _, L := range idsOfTag(tt.win, l.Tag) {
			langTag[[2]uint16{3, L}] = l.Tag
			for id, s := range l.Names {
				want[recKey{3, L, id}] = refname.EncodeUTF16BE(s)
			}
		}
	}
	have := map[recKey]bool{}
	usedLang := map[[2]uint16]bool{}
	total := 0
	distinct := map[string]bool{}
	for i, r := range tab.Records {
		k := recKey{r.Platform, r.Language, r.NameID}
		w, ok := want[k]
		if !ok {
			return nil, false, fmt.Errorf("record %d: platform %d language %#x name id %d is not in the Info", i, r.Platform, r.Language, r.NameID)
		}
		wantEnc := uint16(0)
		if r.Platform == 3 {
			wantEnc = winEnc
		}
		if r.Encoding != wantEnc {
			return nil, false, fmt.Errorf("record %d: platform %d has encoding id %d, want %d", i, r.Platform, r.Encoding, wantEnc)
		}
		if !bytes.Equal(r.Data, w) {
			return nil, false, fmt.Errorf("record %d (platform %d language %#x [%s] name id %d): stored bytes %s, reference encoding gives %s (%s)",
				i, r.Platform, r.Language, langTag[[2]uint16{r.Platform, r.Language}], r.NameID, shortBytes(r.Data), shortBytes(w), diffBytes(r.Data, w))
		}
		have[k] = true
		usedLang[[2]uint16{r.Platform, r.Language}] = true
		total += r.Length
		distinct[string(r.Data)] = true
	}
	// every language id that is used carries all names of its tag; every
	// tag is written under at least one of its language ids
	for k := range want {
		if usedLang[[2]uint16{k.Platform, k.Language}] && !have[k] {
			return nil, false, fmt.Errorf("platform %d language %#x is written but name id %d is missing", k.Platform, k.Language, k.NameID)
		}
	}
	for pi, p := range [][]langModel{m.Mac, m.Win} {
		plat := uint16(1 + 2*pi)
		tabIDs := tt.mac
		if pi == 1 {
			tabIDs = tt.win
		}
		for _, l := range p {
			found := false
			for _, L := range idsOfTag(tabIDs, l.Tag) {
				found = found || usedLang[[2]uint16{plat, L}]
			}
			if !found {
				return nil, false, fmt.Errorf("platform %d: no record for language %q", plat, l.Tag)
			}
		}
	}
	sum := 0
	for d := range distinct {
		sum += len(d)
	}
	return tab, len(tab.Storage) < total && len(tab.Storage) <= sum, nil
}

// diffBytes describes where two byte strings start to differ.
func diffBytes(got, want []byte) string {
	i := 0
	for i < len(got) && i < len(want) && got[i] == want[i] {
		i++
	}
	lo := i - 4
	if lo < 0 {
		lo = 0
	}
	cut := func(b []byte) []byte {
		hi := i + 12
		if hi > len(b) {
			hi = len(b)
		}
		if lo > hi {
			return nil
		}
		return b[lo:hi]
	}
	return fmt.Sprintf("lengths %d and %d, first difference at byte %d: [%d:] % x vs % x", len(got), len(want), i, lo, cut(got), cut(want))
}

func shortBytes(b []byte) string {
	if len(b) > 48 {
		return fmt.Sprintf("% x…(%d bytes)", b[:48], len(b))
	}
	return fmt.Sprintf("% x", b)
}

func sameRecords(a, b *refname.Table) string {
	if len(a.Records) != len(b.Records) {
		return fmt.Sprintf("%d vs %d records", len(a.Records), len(b.Records))
	}
	for i := range a.Records {
		x, y := a.Records[i], b.Records[i]
		if x.Platform != y.Platform || x.Encoding != y.Encoding || x.Language != y.Language ||
			x.NameID != y.NameID || !bytes.Equal(x.Data, y.Data) {
			return fmt.Sprintf("record %d differs: %d/%d/%#x/%d %s vs %d/%d/%#x/%d %s", i,
				x.Platform, x.Encoding, x.Language, x.NameID, shortBytes(x.Data),
				y.Platform, y.Encoding, y.Language, y.NameID, shortBytes(y.Data))
		}
	}
	return ""
}

// chooseKey runs Tables.Choose and identifies the returned table by key.
func chooseKey(tt name.Tables, prefs ...language.Tag) (key string, conf language.Confidence, pn *guard.Panic) {
	var tb *name.Table
	pn = guard.Try(func() { tb, conf = tt.Choose(prefs...) })
	if pn != nil {
		return "", conf, pn
	}
	if tb == nil {
		return "<nil>", conf, nil
	}
	for k, v := range tt {
		if v == tb {
			return k, conf, nil
		}
	}
	return "<foreign>", conf, nil
}

func hasSurrogates(s string) bool {
	for _, r := range s {
		if r >= 0x10000 {
			return true
		}
	}
	return false
}

// xNameCheck lets x/image read a few names from the table.  x/image
// returns the first record with the requested id whose platform/encoding
// is Macintosh/Roman or Windows/UCS-2, and does not pair surrogates.
func xNameCheck(tab *refname.Table, data []byte, ids []uint16) (checked int, err error) {
	f, perr := xparse(1, data, minimalPost)
	if perr != nil {
		return 0, fmt.Errorf("x/image rejects the container: %v", perr)
	}
	for _, id := range ids {
		var want string
		found, abstain := false, false
		for _, r := range tab.Records {
			if r.NameID != id {
				continue
			}
			if r.Platform == 1 && r.Encoding == 0 {
				want, found = oracleMacDecode(r.Data), true
				break
			}
			if r.Platform == 3 && r.Encoding == 1 {
				s, ok := refname.DecodeUTF16BE(r.Data)
				if !ok || hasSurrogates(s) {
					abstain = true
				}
				want, found = s, true
				break
			}
		}
		if abstain {
			continue
		}
		got, gerr := f.Name(nil, xsfnt.NameID(id))
		if !found {
			if gerr == nil {
				return checked, fmt.Errorf("x/image finds name id %d = %q, the reference walk finds no usable record", id, got)
			}
			continue
		}
		if gerr != nil {
			return checked, fmt.Errorf("x/image: name id %d: %v, reference walk has %s", id, gerr, short(want))
		}
		if got != want {
			return checked, fmt.Errorf("x/image reads name id %d as %s, reference walk %s", id, short(got), short(want))
		}
		checked++
	}
	return checked, nil
}

func TestC14Name(t *testing.T) {
	tt := loadTables()
	if tt.err != nil {
		t.Fatal(tt.err)
	}
	gen := genNameModel(tt)
	rapid.Check(t, func(t *rapid.T) {
		m := gen.Draw(t, "info")
		info := &name.Info{Mac: toTables(m.Mac), Windows: toTables(m.Win)}
		if rapid.IntRange(0, 9).Draw(t, "nilMaps") == 0 {
			if len(m.Mac) == 0 {
				info.Mac = nil
			}
			if len(m.Win) == 0 {
				info.Windows = nil
			}
		}
		fail := func(format string, args ...any) {
			t.Fatalf("name.Info %s\n  %s", m, fmt.Sprintf(format, args...))
		}

		var data []byte
		if pn := guard.Try(func() { data = info.Encode(1) }); pn != nil {
			fail("Encode(1): %s", pn)
		}
		tab, shared, err := checkEncoded(tt, m, data, 1)
		if err != nil {
			fail("reference walk of Encode(1): %v", err)
		}

		var dec *name.Info
		if pn := guard.Try(func() { dec, err = name.Decode(data) }); pn != nil {
			fail("Decode: %s", pn)
		}
		if err != nil {
			fail("Decode(Encode(info)): %v", err)
		}
		for pi, pair := range [][2]any{{m.Mac, dec.Mac}, {m.Win, dec.Windows}} {
			got, anomalies := flatten(pair[1].(name.Tables))
			if len(anomalies) > 0 {
				fail("decoded %s tables: %v", []string{"Mac", "Windows"}[pi], anomalies)
			}
			if d := diffFlat(flatModel(pair[0].([]langModel)), got); d != "" {
				fail("Decode(Encode(info)) differs on the %s platform: %s", []string{"Mac", "Windows"}[pi], d)
			}
		}

		// second generation: same records (offsets may differ)
		var data2 []byte
		if pn := guard.Try(func() { data2 = dec.Encode(1) }); pn != nil {
			fail("Encode of the decoded Info: %s", pn)
		}
		tab2, err := refname.Parse(data2)
		if err != nil {
			fail("reference walk of the second generation: %v", err)
		}
		if d := sameRecords(tab, tab2); d != "" {
			fail("Encode(Decode(Encode(info))) has different records: %s", d)
		}

		// other Windows encoding ids only change the encoding field
		if k := rapid.IntRange(0, 7).Draw(t, "otherEnc"); k < 2 {
			enc := []uint16{10, 0}[k]
			var d3 []byte
			if pn := guard.Try(func() { d3 = info.Encode(enc) }); pn != nil {
				fail("Encode(%d): %s", enc, pn)
			}
			if _, _, err := checkEncoded(tt, m, d3, enc); err != nil {
				fail("reference walk of Encode(%d): %v", enc, err)
			}
			stats.Label("name", fmt.Sprintf("encode-with-windows-encoding-%d", enc))
		}

		// Tables.Choose sees the same table before and after the round trip
		chooseChecked := false
		for pi, pair := range [][2]name.Tables{{info.Mac, dec.Mac}, {info.Windows, dec.Windows}} {
			ls := m.Mac
			if pi == 1 {
				ls = m.Win
			}
			if len(ls) == 0 {
				continue
			}
			l := ls[rapid.IntRange(0, len(ls)-1).Draw(t, "chooseLang")]
			pref, perr := language.Parse(l.Tag)
			if perr != nil {
				fail("language tag %q of the library's table is not valid BCP 47: %v", l.Tag, perr)
			}
			prefs := []language.Tag{pref}
			if rapid.Bool().Draw(t, "foreignPref") {
				prefs = []language.Tag{language.MustParse(rapid.SampledFrom([]string{"en", "de-CH", "zh-TW", "tlh", "und"}).Draw(t, "pref"))}
			}
			k1, c1, pn := chooseKey(pair[0], prefs...)
			if pn != nil {
				fail("Choose(%v) on the original: %s", prefs, pn)
			}
			k2, c2, pn := chooseKey(pair[1], prefs...)
			if pn != nil {
				fail("Choose(%v) on the decoded tables: %s", prefs, pn)
			}
			if k1 != k2 || c1 != c2 {
				fail("Choose(%v) picks %q (%v) before and %q (%v) after the round trip", prefs, k1, c1, k2, c2)
			}
			if k1 == "<nil>" || k1 == "<foreign>" {
				fail("Choose(%v) returned %s for %d tables", prefs, k1, len(pair[0]))
			}
			if len(ls) == 1 && k1 != l.Tag {
				fail("Choose(%v) with the single table %q returned %q", prefs, l.Tag, k1)
			}
			chooseChecked = true
		}

		// x/image as second reader
		var ids []uint16
		all := map[uint16]bool{}
		for _, r := range tab.Records {
			all[r.NameID] = true
		}
		for id := range all {
			ids = append(ids, id)
		}
		sort.Slice(ids, func(i, j int) bool { return ids[i] < ids[j] })
		if len(ids) > 6 {
			ids = ids[:6]
		}
		for _, probe := range []uint16{3, 28} { // usually absent
			if !all[probe] {
				ids = append(ids, probe)
			}
		}
		xn, err := xNameCheck(tab, data, ids)
		if err != nil {
			fail("%v", err)
		}

		nt := len(m.Mac) >= 2 && len(m.Win) >= 2
		labels := []string{
			ifs(len(m.Mac) > 0 && len(m.Win) > 0, "both-platforms", ifs(len(m.Mac) > 0, "mac-only", "windows-only")),
			ifs(shared, "strings-shared-in-storage", ""),
			ifs(len(tab.Storage) > 30000, "storage>30000", ""),
			ifs(len(tab.Records) > 1000, "records>1000", ""),
			ifs(chooseChecked, "choose", ""),
			ifs(xn > 0, "ximage-name", ""),
		}
		extra, nonBMP, longStr, dupLang := false, false, false, false
		for pi, p := range [][]langModel{m.Mac, m.Win} {
			for _, l := range p {
				if pi == 1 && len(idsOfTag(tt.win, l.Tag)) > 1 {
					dupLang = true
				}
				for id, s := range l.Names {
					if _, ok := nameField[id]; !ok {
						extra = true
					}
					nonBMP = nonBMP || hasSurrogates(s)
					longStr = longStr || len(s) > 10000
				}
			}
		}
		labels = append(labels, ifs(extra, "extra-name-ids", ""), ifs(nonBMP, "non-BMP", ""),
			ifs(longStr, "string>10000-bytes", ""), ifs(dupLang, "tag-with-two-language-ids", ""))
		labels = append(labels, ifs(m.Crossing, "storage-beyond-64KiB", ""))
		stats.CaseIn("name", stats.Hash(m.String()), nt, func() string { return m.String() }, labels...)
	})
}
