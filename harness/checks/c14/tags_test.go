package c14

import (
	"bytes"
	"fmt"
	"sort"
	"strings"
	"testing"

	"golang.org/x/text/language"
	"pgregory.net/rapid"

	"seehuhn.de/go/sfnt/opentype/gtab"
	"verif/harness/guard"
	"verif/harness/ref/refname"
	"verif/harness/stats"
)

var featureTags = []string{"liga", "kern", "locl", "ccmp", "smcp", "aalt", "c2sc", "ss01"}

func lsKey(l refname.LangSys) string {
	return fmt.Sprintf("%q/%q req=%d feat=%v", l.Script, l.Lang, l.Required, l.Features)
}

func sortedKeys(ls []refname.LangSys) []string {
	var res []string
	for _, l := range ls {
		res = append(res, lsKey(l))
	}
	sort.Strings(res)
	return res
}

// layoutRoundTrip sends language systems through a harness-written GSUB or
// GPOS table, gtab.Read, (*gtab.Info).Encode and the reference walker.  It
// returns a description of the first disagreement ("" if none).
func layoutRoundTrip(ls []refname.LangSys, tp gtab.Type) string {
	in, err := refname.BuildLayoutTable(ls, featureTags)
	if err != nil {
		panic(err) // generator bug
	}
	// self-check of the reference writer/reader pair
	back, err := refname.ParseScriptList(in)
	if err != nil || strings.Join(sortedKeys(back), ";") != strings.Join(sortedKeys(ls), ";") {
		panic(fmt.Sprintf("reference writer/reader disagree: %v %v vs %v", err, back, ls))
	}

	var info *gtab.Info
	if pn := guard.Try(func() { info, err = gtab.Read(bytes.NewReader(in), tp) }); pn != nil {
		return "gtab.Read: " + pn.String()
	}
	if err != nil {
		return fmt.Sprintf("gtab.Read: %v", err)
	}
	if len(info.ScriptList) != len(ls) {
		var tags []string
		for tag := range info.ScriptList {
			tags = append(tags, tag.String())
		}
		sort.Strings(tags)
		return fmt.Sprintf("gtab.Read: %d language systems in the table, ScriptList has %d entries %v",
			len(ls), len(info.ScriptList), tags)
	}
	for tag := range info.ScriptList {
		// every key must be a well-formed BCP 47 tag in canonical spelling
		re, err := language.Parse(tag.String())
		if err != nil || re != tag {
			return fmt.Sprintf("ScriptList key %q does not re-parse to itself (%v, %v)", tag, re, err)
		}
	}
	var out []byte
	if pn := guard.Try(func() { out = info.Encode() }); pn != nil {
		return "Info.Encode: " + pn.String()
	}
	got, err := refname.ParseScriptList(out)
	if err != nil {
		return fmt.Sprintf("reference reader on the re-encoded table: %v", err)
	}
	w, g := sortedKeys(ls), sortedKeys(got)
	if strings.Join(w, ";") != strings.Join(g, ";") {
		return fmt.Sprintf("re-encoded ScriptList differs:\n   want %v\n   got  %v", w, g)
	}
	// and the library reads its own output as the same map
	var info2 *gtab.Info
	if pn := guard.Try(func() { info2, err = gtab.Read(bytes.NewReader(out), tp) }); pn != nil {
		return "gtab.Read (2nd): " + pn.String()
	}
	if err != nil {
		return fmt.Sprintf("gtab.Read (2nd): %v", err)
	}
	if len(info2.ScriptList) != len(info.ScriptList) {
		return fmt.Sprintf("second read has %d entries, first %d", len(info2.ScriptList), len(info.ScriptList))
	}
	for tag, f := range info.ScriptList {
		f2 := info2.ScriptList[tag]
		if f2 == nil || f2.Required != f.Required || fmt.Sprint(f2.Optional) != fmt.Sprint(f.Optional) {
			return fmt.Sprintf("second read: entry %q differs: %v vs %v", tag, f, f2)
		}
	}
	return ""
}

// TestC14TagPairs enumerates every (script, language) pair of the
// library's OpenType tag tables (plus the default language system of each
// script).
func TestC14TagPairs(t *testing.T) {
	tt := loadTables()
	if tt.err != nil {
		t.Fatal(tt.err)
	}
	langs := []string{""}
	for _, l := range tt.lang {
		langs = append(langs, l.Key)
	}
	badScript := map[string]int{}
	badLang := map[string]int{}
	var first []string
	total, bad := 0, 0
	for si, s := range tt.scripts {
		for li, l := range langs {
			ls := []refname.LangSys{{Script: s.Key, Lang: l, Required: uint16(li % 3), Features: []uint16{uint16(si % 8), uint16((si + li) % 7)}}}
			if ls[0].Required == 2 {
				ls[0].Required = 0xFFFF
			}
			tp := gtab.Type(gtab.TypeGsub)
			if (si+li)%5 == 0 {
				tp = gtab.TypeGpos
			}
			total++
			msg := layoutRoundTrip(ls, tp)
			if msg != "" {
				bad++
				badScript[s.Key]++
				badLang[l]++
				if len(first) < 3 {
					first = append(first, fmt.Sprintf("script %q lang %q: %s", s.Key, l, msg))
				}
				continue
			}
			var labels []string
			if strings.HasSuffix(s.Key, " ") {
				labels = append(labels, "script-with-space")
			}
			if l == "" {
				labels = append(labels, "default-langsys")
			} else if strings.HasSuffix(l, " ") {
				labels = append(labels, "lang-with-space")
			} else {
				labels = append(labels, "lang-4-letters")
			}
			stats.CaseIn("tagpairs", stats.Hash(s.Key, l), true, func() string {
				return fmt.Sprintf("script %q lang %q", s.Key, l)
			}, labels...)
		}
	}
	stats.Exhaustive("tagpairs")
	stats.Note("tagpairs", fmt.Sprintf("%d scripts x (%d languages + default) = %d pairs", len(tt.scripts), len(tt.lang), total))
	if bad > 0 {
		// summarise: scripts failing for every language, languages failing for every script
		var ss, ll []string
		for s, n := range badScript {
			if n == len(langs) {
				ss = append(ss, fmt.Sprintf("%q", s))
			}
		}
		for l, n := range badLang {
			if n == len(tt.scripts) {
				ll = append(ll, fmt.Sprintf("%q", l))
			}
		}
		sort.Strings(ss)
		sort.Strings(ll)
		t.Fatalf("%d of %d script/language pairs do not survive gtab.Read + Encode.\n"+
			"scripts failing with every language: %v\nlanguages failing with every script: %v\nfirst failures:\n  %s",
			bad, total, ss, ll, strings.Join(first, "\n  "))
	}
}

// TestC14ScriptList sends random script lists (several scripts, default
// and named language systems) through gtab.Read and Encode.
func TestC14ScriptList(t *testing.T) {
	tt := loadTables()
	if tt.err != nil {
		t.Fatal(tt.err)
	}
	var spaced []string
	for _, s := range tt.scripts {
		if strings.HasSuffix(s.Key, " ") {
			spaced = append(spaced, s.Key)
		}
	}
	rapid.Check(t, func(t *rapid.T) {
		nScripts := rapid.SampledFrom([]int{1, 1, 2, 3, 5, 8, 20, 60}).Draw(t, "nScripts")
		var ls []refname.LangSys
		seenS := map[string]bool{}
		hasSpace, hasDFLT, multiLang := false, false, false
		for i := 0; i < nScripts; i++ {
			var s string
			switch rapid.IntRange(0, 9).Draw(t, "scriptKind") {
			case 0:
				s = "DFLT"
			case 1:
				if len(spaced) > 0 {
					s = rapid.SampledFrom(spaced).Draw(t, "spaced")
					break
				}
				fallthrough
			default:
				s = tt.scripts[rapid.IntRange(0, len(tt.scripts)-1).Draw(t, "script")].Key
			}
			if seenS[s] {
				continue
			}
			seenS[s] = true
			hasSpace = hasSpace || strings.HasSuffix(s, " ")
			hasDFLT = hasDFLT || s == "DFLT"
			// (a script list is limited by 16-bit offsets: at most about 2000
			// language systems of this size in total)
			nLang := rapid.SampledFrom([]int{0, 0, 1, 2, 4, 12, 40, 150}).Draw(t, "nLang")
			if len(ls)+nLang > 2000 {
				nLang = 2
			}
			def := nLang == 0 || rapid.Bool().Draw(t, "default")
			seenL := map[string]bool{}
			mk := func(lang string) {
				l := refname.LangSys{Script: s, Lang: lang, Required: 0xFFFF}
				if rapid.Bool().Draw(t, "hasReq") {
					l.Required = uint16(rapid.IntRange(0, len(featureTags)-1).Draw(t, "req"))
				}
				nf := rapid.IntRange(0, 5).Draw(t, "nFeat")
				for k := 0; k < nf; k++ {
					l.Features = append(l.Features, uint16(rapid.IntRange(0, len(featureTags)-1).Draw(t, "feat")))
				}
				ls = append(ls, l)
			}
			if def {
				mk("")
			}
			for k := 0; k < nLang; k++ {
				l := tt.lang[rapid.IntRange(0, len(tt.lang)-1).Draw(t, "lang")].Key
				if seenL[l] {
					continue
				}
				seenL[l] = true
				mk(l)
			}
			multiLang = multiLang || len(seenL) >= 2
		}
		tp := gtab.Type(gtab.TypeGsub)
		if rapid.Bool().Draw(t, "gpos") {
			tp = gtab.TypeGpos
		}
		if msg := layoutRoundTrip(ls, tp); msg != "" {
			t.Fatalf("script list %v (table type %v): %s", sortedKeys(ls), tp, msg)
		}
		var labels []string
		if hasSpace {
			labels = append(labels, "script-with-space")
		}
		if hasDFLT {
			labels = append(labels, "DFLT")
		}
		if multiLang {
			labels = append(labels, "multi-lang-script")
		}
		if len(seenS) >= 2 {
			labels = append(labels, "multi-script")
		}
		switch {
		case len(ls) >= 500:
			labels = append(labels, "language-systems>=500")
		case len(ls) >= 70:
			labels = append(labels, "language-systems-70..499")
		}
		keys := sortedKeys(ls)
		stats.CaseIn("scriptlist", stats.Hash(strings.Join(keys, ";"), int(tp)), len(ls) >= 2, func() string {
			return strings.Join(keys, "; ")
		}, labels...)
	})
}

// TestC14RegressScriptTagPadding: script tags shorter than four letters
// ("lao ", "nko ", "vai ", "yi  ") were dropped by gtab.Read because the
// padding spaces ended up inside the BCP 47 private-use extension.
func TestC14RegressScriptTagPadding(t *testing.T) {
	for _, ls := range [][]refname.LangSys{
		{{Script: "lao ", Required: 0xFFFF, Features: []uint16{0}}},
		{{Script: "nko ", Lang: "DEU ", Required: 1}},
		{{Script: "vai ", Required: 0xFFFF}, {Script: "vai ", Lang: "ENG ", Required: 0xFFFF, Features: []uint16{2, 3}}},
		{{Script: "yi  ", Lang: "YIM ", Required: 0xFFFF, Features: []uint16{1}}, {Script: "latn", Required: 0xFFFF}},
	} {
		if msg := layoutRoundTrip(ls, gtab.TypeGsub); msg != "" {
			t.Errorf("script list %v: %s", sortedKeys(ls), msg)
		}
	}
}
