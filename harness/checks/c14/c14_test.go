// C14: names, glyph names and language tags survive their encodings.
//
// Sub-checks (stats names in brackets):
//
//	TestC14MacCodec    [mac-bytes, mac-runes]  exhaustive: all bytes, all runes vs charmap.Macintosh
//	TestC14Codecs      [codecs]                random byte strings / rune strings, Mac Roman and UTF-16
//	TestC14Name        [name]                  name.Info -> Encode -> reference walk -> Decode -> equal
//	TestC14NameRaw     [name-raw]              harness-written tables (any record mix) -> Decode -> Encode
//	TestC14LangIDs     [langid]                exhaustive: every platform language id, listed or not
//	TestC14TagPairs    [tagpairs]              exhaustive: every script x language of the OpenType tag tables
//	TestC14ScriptList  [scriptlist]            random script lists through gtab.Read / Encode
//	TestC14Post        [post]                  glyph-name lists through post Encode / Read / reference / x/image
//	TestC14PostStd     [post-std]              exhaustive: the 258 standard names, three-way
package c14

import (
	"testing"

	"verif/harness/stats"
)

func TestMain(m *testing.M) { stats.MainExit(m) }
