// C20: generated glyph names are complete, unique, stable and PostScript-safe.
package c20

import (
	"fmt"
	"regexp"
	"strings"
	"testing"

	"pgregory.net/rapid"

	"seehuhn.de/go/postscript/funit"
	"seehuhn.de/go/postscript/type1/names"
	"seehuhn.de/go/sfnt"
	"seehuhn.de/go/sfnt/cff"
	"seehuhn.de/go/sfnt/cmap"
	"seehuhn.de/go/sfnt/glyf"
	"seehuhn.de/go/sfnt/glyph"
	"seehuhn.de/go/sfnt/opentype/gtab"
	"seehuhn.de/go/sfnt/os2"
	genfont "verif/harness/gen/font"
	"verif/harness/guard"
	"verif/harness/stats"
)

func TestMain(m *testing.M) { stats.MainExit(m) }

// originalNames returns the names the font carries before inference, in the
// form the property talks about: glyph 0 is .notdef, TrueType fonts with a
// names list of the wrong length have no names.
func originalNames(f *sfnt.Font) []string {
	n := f.NumGlyphs()
	res := make([]string, n)
	switch o := f.Outlines.(type) {
	case *cff.Outlines:
		for i, g := range o.Glyphs {
			res[i] = g.Name
		}
	case *glyf.Outlines:
		if len(o.Names) == n {
			copy(res, o.Names)
		}
	}
	res[0] = ".notdef"
	return res
}

var ornPat = regexp.MustCompile(`^orn[0-9]{3,}$`)

// rule is a substitution rule that produces glyph out from glyphs in.
type rule struct {
	in  []glyph.ID
	out glyph.ID
	lig bool
}

func rulesOf(f *sfnt.Font) []rule {
	var res []rule
	if f.Gsub == nil {
		return nil
	}
	for _, l := range f.Gsub.LookupList {
		for _, st := range l.Subtables {
			switch st := st.(type) {
			case *gtab.Gsub1_1:
				for g := range st.Cov {
					res = append(res, rule{in: []glyph.ID{g}, out: g + st.Delta})
				}
			case *gtab.Gsub1_2:
				for g, idx := range st.Cov {
					res = append(res, rule{in: []glyph.ID{g}, out: st.SubstituteGlyphIDs[idx]})
				}
			case *gtab.Gsub3_1:
				for g, idx := range st.Cov {
					for _, a := range st.Alternates[idx] {
						res = append(res, rule{in: []glyph.ID{g}, out: a})
					}
				}
			case *gtab.Gsub4_1:
				for g, idx := range st.Cov {
					for _, lig := range st.Repl[idx] {
						in := append([]glyph.ID{g}, lig.In...)
						res = append(res, rule{in: in, out: lig.Out, lig: true})
					}
				}
			}
		}
	}
	return res
}

func stripVariant(name string) []string {
	// name or name.K
	res := []string{name}
	if i := strings.LastIndexByte(name, '.'); i > 0 {
		suffix := name[i+1:]
		ok := suffix != ""
		for _, c := range suffix {
			if c < '0' || c > '9' {
				ok = false
			}
		}
		if ok {
			res = append(res, name[:i])
		}
	}
	return res
}

// checkNames verifies a complete name list against the property.
func checkNames(f *sfnt.Font, got []string) error {
	n := f.NumGlyphs()
	if len(got) != n {
		return fmt.Errorf("%d names for %d glyphs", len(got), n)
	}
	seen := map[string]int{}
	for i, nm := range got {
		if nm == "" {
			return fmt.Errorf("glyph %d has an empty name", i)
		}
		if j, ok := seen[nm]; ok {
			return fmt.Errorf("glyphs %d and %d share the name %q", j, i, nm)
		}
		seen[nm] = i
	}
	if got[0] != ".notdef" {
		return fmt.Errorf("glyph 0 is named %q", got[0])
	}
	orig := originalNames(f)
	count := map[string]int{}
	for _, nm := range orig {
		count[nm]++
	}
	existing := make([]bool, n)
	for i, nm := range orig {
		if nm != "" && count[nm] == 1 {
			existing[i] = true
			if got[i] != nm {
				return fmt.Errorf("glyph %d: existing unique name %q replaced by %q", i, nm, got[i])
			}
		}
	}
	// candidates from the character map
	agl := make([][]string, n)
	best, _ := f.CMapTable.GetBest()
	if best != nil {
		lo, hi := best.CodeRange()
		for r := lo; r <= hi; r++ {
			gid := best.Lookup(r)
			if gid == 0 || int(gid) >= n {
				continue
			}
			agl[gid] = append(agl[gid], names.FromUnicode(string(r)))
		}
	}
	rules := rulesOf(f)
	// which names are "settled before the GSUB pass": existing ones and AGL ones
	fromCmap := make([]bool, n)
	for i := range got {
		if existing[i] {
			continue
		}
		for _, c := range agl[i] {
			if c == got[i] {
				fromCmap[i] = true
			}
		}
	}
	for i := range got {
		if existing[i] || fromCmap[i] {
			continue
		}
		if orig[i] != "" && count[orig[i]] > 1 && got[i] == orig[i] {
			continue // one holder of a duplicated name may keep it
		}
		// from a substitution rule?
		fromRule := false
		for _, r := range rules {
			if int(r.out) != i {
				continue
			}
			parts := make([]string, len(r.in))
			for k, g := range r.in {
				if int(g) >= n {
					parts = nil
					break
				}
				parts[k] = got[g]
			}
			if parts == nil {
				continue
			}
			base := strings.Join(parts, "_")
			for _, cand := range stripVariant(got[i]) {
				if cand == base {
					fromRule = true
				}
			}
		}
		if fromRule {
			continue
		}
		if !ornPat.MatchString(got[i]) {
			return fmt.Errorf("glyph %d: name %q is neither an existing name, an AGL name of a mapped character %v, a variant/ligature name of a rule producing it, nor a placeholder", i, got[i], agl[i])
		}
		// placeholder: only if no source could have named the glyph
		for _, c := range agl[i] {
			if _, taken := seen[c]; !taken {
				return fmt.Errorf("glyph %d got placeholder %q although the AGL name %q of a character mapped to it is unused", i, got[i], c)
			}
		}
		for _, r := range rules {
			if int(r.out) != i {
				continue
			}
			named := true
			for _, g := range r.in {
				if int(g) >= n || !(existing[g] || fromCmap[g]) || int(g) == i {
					named = false
				}
			}
			if named {
				return fmt.Errorf("glyph %d got placeholder %q although rule %v -> %d has only named inputs", i, got[i], r.in, r.out)
			}
		}
	}
	return nil
}

// addRichLigatures appends a ligature lookup with long ligature sets: two to
// five ligatures per first glyph, two to five components each, consecutive
// ligatures of a set often sharing a prefix of their components (as f_f_i,
// f_f_l, f_i do), so that ligatures which cannot be named (a component
// without a name, an output that has one already) stand between ligatures
// which can.
func addRichLigatures(t *rapid.T, f *sfnt.Font) {
	n := f.NumGlyphs()
	gid := rapid.Custom(func(t *rapid.T) glyph.ID { return glyph.ID(rapid.IntRange(0, n-1).Draw(t, "g")) })
	firsts := rapid.SliceOfNDistinct(gid, 1, 3, rapid.ID[glyph.ID]).Draw(t, "ligFirsts")
	sub := &gtab.Gsub4_1{Cov: map[glyph.ID]int{}}
	sorted := append([]glyph.ID{}, firsts...)
	for i := range sorted {
		for j := i + 1; j < len(sorted); j++ {
			if sorted[j] < sorted[i] {
				sorted[i], sorted[j] = sorted[j], sorted[i]
			}
		}
	}
	for i, g := range sorted {
		sub.Cov[g] = i
		var set []gtab.Ligature
		seen := map[string]bool{}
		var prev []glyph.ID
		for k := rapid.IntRange(2, 5).Draw(t, "setLen"); k > 0; k-- {
			var in []glyph.ID
			if len(prev) > 0 && rapid.IntRange(0, 2).Draw(t, "sharePrefix") != 0 {
				keep := rapid.IntRange(0, len(prev)).Draw(t, "prefixLen")
				in = append(in, prev[:keep]...)
			}
			want := rapid.IntRange(1, 4).Draw(t, "nComponents")
			for len(in) < want {
				in = append(in, gid.Draw(t, "component"))
			}
			key := fmt.Sprint(in)
			if seen[key] {
				continue
			}
			seen[key] = true
			set = append(set, gtab.Ligature{In: in, Out: gid.Draw(t, "ligOut")})
			prev = in
		}
		sub.Repl = append(sub.Repl, set)
	}
	if f.Gsub == nil {
		f.Gsub = &gtab.Info{}
	}
	f.Gsub.LookupList = append(f.Gsub.LookupList, &gtab.LookupTable{
		Meta: &gtab.LookupMetaInfo{LookupType: 4}, Subtables: []gtab.Subtable{sub}})
	if rapid.IntRange(0, 2).Draw(t, "twinLookup") == 0 {
		// a second lookup with the same component sequences and other
		// ligature glyphs (as liga and dlig features of one font may have):
		// the same joined name is then wanted for two different glyphs
		twin := &gtab.Gsub4_1{Cov: sub.Cov}
		for _, set := range sub.Repl {
			var set2 []gtab.Ligature
			for _, lig := range set {
				set2 = append(set2, gtab.Ligature{In: lig.In, Out: gid.Draw(t, "twinOut")})
			}
			twin.Repl = append(twin.Repl, set2)
		}
		f.Gsub.LookupList = append(f.Gsub.LookupList, &gtab.LookupTable{
			Meta: &gtab.LookupMetaInfo{LookupType: 4}, Subtables: []gtab.Subtable{twin}})
	}
}

func opts() genfont.Opts {
	return genfont.Opts{MaxGlyphs: 20, MinGlyphs: 1, Names: genfont.NamesWild, Layout: genfont.LayoutMaybe, NoWideCmap: true}
}

func TestC20MakeGlyphNames(t *testing.T) {
	rapid.Check(t, func(t *rapid.T) {
		c := genfont.Gen(opts()).Draw(t, "font")
		f := c.Font
		f.Gpos, f.Gdef = nil, nil
		if f.NumGlyphs() >= 3 && rapid.IntRange(0, 1).Draw(t, "richLigatures") == 0 {
			addRichLigatures(t, f)
			c.Labels = append(c.Labels, "rich-ligatures")
		}
		orig := originalNames(f)
		ctx := func() string {
			return fmt.Sprintf("original names %q\n%s\nrules %v", orig, c, rulesOf(f))
		}
		var got []string
		if pn := guard.Try(func() { got = f.MakeGlyphNames() }); pn != nil {
			t.Fatalf("MakeGlyphNames panicked: %s\n%s\n%s", pn, ctx(), pn.Stack)
		}
		if err := checkNames(f, got); err != nil {
			t.Fatalf("%v\n  names: %q\n%s", err, got, ctx())
		}
		for k := 0; k < 8; k++ {
			again := f.MakeGlyphNames()
			if strings.Join(again, "|") != strings.Join(got, "|") {
				t.Fatalf("MakeGlyphNames is not stable: call 1 %q, call %d %q\n%s", got, k+2, again, ctx())
			}
		}
		inferred, kept := 0, 0
		count := map[string]int{}
		for _, nm := range orig {
			count[nm]++
		}
		for i, nm := range orig {
			if nm != "" && count[nm] == 1 {
				kept++
			} else if got[i] != nm {
				inferred++
			}
		}
		// install and retrieve
		f.EnsureGlyphNames()
		inst := make([]string, f.NumGlyphs())
		for i := range inst {
			inst[i] = f.GlyphName(glyph.ID(i))
		}
		if err := checkInstalled(inst); err != nil {
			t.Fatalf("after EnsureGlyphNames: %v\n  names %q\n%s", err, inst, ctx())
		}
		if again := f.MakeGlyphNames(); strings.Join(again, "|") != strings.Join(inst, "|") {
			t.Fatalf("after EnsureGlyphNames, MakeGlyphNames returns %q but GlyphName gives %q\n%s", again, inst, ctx())
		}
		labels := append([]string{}, c.Labels...)
		if inferred > 0 {
			labels = append(labels, "inferred")
		}
		if f.Gsub != nil && len(rulesOf(f)) > 0 {
			labels = append(labels, "has-rules")
		}
		stats.CaseIn("names", stats.Hash(strings.Join(orig, "|"), strings.Join(got, "|"), c.String()), inferred > 0 && kept > 0,
			func() string { return fmt.Sprintf("%q -> %q (%s)", orig, got, c.Kind) }, labels...)
	})
}

func checkInstalled(inst []string) error {
	seen := map[string]int{}
	for i, nm := range inst {
		if nm == "" {
			return fmt.Errorf("glyph %d has no name", i)
		}
		if j, ok := seen[nm]; ok {
			return fmt.Errorf("glyphs %d and %d share the name %q", j, i, nm)
		}
		seen[nm] = i
	}
	if inst[0] != ".notdef" {
		return fmt.Errorf("glyph 0 is named %q", inst[0])
	}
	return nil
}

func TestC20MakeSimple(t *testing.T) {
	rapid.Check(t, func(t *rapid.T) {
		o := opts()
		o.Kind = genfont.KindCID
		c := genfont.Gen(o).Draw(t, "font")
		out := c.Font.Outlines.(*cff.Outlines)
		n := len(out.Glyphs)
		if n >= 5 && rapid.IntRange(0, 3).Draw(t, "placeholderRun") == 0 {
			// left-over names of an earlier conversion: a run of consecutive
			// placeholder names on some glyphs, no name on most others, so that
			// the numbering of new placeholders walks into the run
			k := rapid.IntRange(1, 4).Draw(t, "runStart")
			idx := rapid.Permutation(func() []int {
				r := make([]int, n-1)
				for i := range r {
					r[i] = i + 1
				}
				return r
			}()).Draw(t, "runGlyphs")
			runLen := rapid.IntRange(2, 3).Draw(t, "runLen")
			for i, g := range out.Glyphs {
				if i > 0 && rapid.IntRange(0, 3).Draw(t, "dropName") != 0 {
					g.Name = ""
				}
			}
			for j := 0; j < runLen && j < len(idx); j++ {
				out.Glyphs[idx[j]].Name = fmt.Sprintf("orn%03d", k+j)
			}
		}
		orig := make([]string, n)
		for i, g := range out.Glyphs {
			orig[i] = g.Name
		}
		var text map[glyph.ID]string
		if rapid.IntRange(0, 3).Draw(t, "hasText") > 0 {
			text = map[glyph.ID]string{}
			for i := 0; i < n; i++ {
				if rapid.Bool().Draw(t, "txt") {
					text[glyph.ID(i)] = rapid.SampledFrom([]string{"A", "A", "B", "fi", "ﬁ", "é", "Ω", "x", "", "😀", "ab", strings.Repeat("W", 40),
						// names at and just below the 31-character limit, likely to collide
						"abcdefghijklmn", "abcdefghijklmn", "abcdefghijklmno", "abcdefghijklmnop", "abcdefghijklmnop", "ЖЖЖЖЖЖЖ", "ЖЖЖЖЖЖ"}).Draw(t, "text")
				}
			}
		}
		ctx := func() string { return fmt.Sprintf("original names %q text %q\n%s", orig, text, c) }
		if pn := guard.Try(func() { out.MakeSimple(text) }); pn != nil {
			t.Fatalf("MakeSimple panicked: %s\n%s", pn, ctx())
		}
		got := make([]string, n)
		for i, g := range out.Glyphs {
			got[i] = g.Name
		}
		if err := checkInstalled(got); err != nil {
			t.Fatalf("MakeSimple: %v\n  names %q\n%s", err, got, ctx())
		}
		count := map[string]int{}
		o0 := append([]string{}, orig...)
		o0[0] = ".notdef"
		for _, nm := range o0 {
			count[nm]++
		}
		inferred, kept := 0, 0
		for i, nm := range got {
			if !names.IsValid(nm) {
				t.Fatalf("MakeSimple: glyph %d got the invalid PostScript name %q\n%s", i, nm, ctx())
			}
			if o0[i] != "" && count[o0[i]] == 1 && names.IsValid(o0[i]) {
				kept++
				if nm != o0[i] {
					t.Fatalf("MakeSimple: glyph %d: existing unique valid name %q replaced by %q\n%s", i, o0[i], nm, ctx())
				}
				continue
			}
			if nm == o0[i] {
				continue
			}
			inferred++
			// inferred: AGL name of the text (+ .altN) or placeholder
			ok := ornPat.MatchString(nm)
			if tx := text[glyph.ID(i)]; tx != "" {
				base := names.FromUnicode(tx)
				if nm == base || (strings.HasPrefix(nm, base+".alt") && isDigits(nm[len(base)+4:])) {
					ok = true
				}
			}
			if !ok {
				t.Fatalf("MakeSimple: glyph %d: name %q is neither derived from its text %q nor a placeholder\n%s", i, nm, text[glyph.ID(i)], ctx())
			}
		}
		if out.ROS != nil || out.GIDToCID != nil || out.FontMatrices != nil {
			t.Fatalf("MakeSimple left CID data behind: ROS=%v GIDToCID=%v FontMatrices=%v", out.ROS, out.GIDToCID, out.FontMatrices)
		}
		want := cff.StandardEncoding(out.Glyphs)
		if len(out.Encoding) != 256 {
			t.Fatalf("MakeSimple: encoding has length %d", len(out.Encoding))
		}
		for i := range want {
			if out.Encoding[i] != want[i] {
				t.Fatalf("MakeSimple: Encoding[%d]=%d, StandardEncoding of the result gives %d\n%s", i, out.Encoding[i], want[i], ctx())
			}
		}
		stats.CaseIn("makesimple", stats.Hash(strings.Join(orig, "|"), strings.Join(got, "|"), fmt.Sprint(text)), inferred > 0 && kept > 1,
			func() string { return fmt.Sprintf("%q + text %q -> %q", orig, text, got) })
	})
}

func isDigits(s string) bool {
	if s == "" {
		return false
	}
	for _, c := range s {
		if c < '0' || c > '9' {
			return false
		}
	}
	return true
}

func TestC20PostScriptName(t *testing.T) {
	rapid.Check(t, func(t *rapid.T) {
		f := &sfnt.Font{}
		f.FamilyName = rapid.OneOf(genfont.Text(16), rapid.String(), rapid.StringMatching(`[ -~]{0,20}`)).Draw(t, "family")
		f.Width = os2.Width(rapid.IntRange(0, 10).Draw(t, "width"))
		f.Weight = os2.Weight(rapid.OneOf(rapid.IntRange(0, 1000), rapid.SampledFrom([]int{0, 100, 400, 700, 900, 65535})).Draw(t, "weight"))
		f.IsBold = rapid.Bool().Draw(t, "bold")
		f.IsItalic = rapid.Bool().Draw(t, "italic")
		f.IsOblique = rapid.Bool().Draw(t, "oblique")
		f.IsRegular = rapid.Bool().Draw(t, "regular")
		var name string
		if pn := guard.Try(func() { name = f.PostScriptName() }); pn != nil {
			t.Fatalf("PostScriptName panicked: %s (family %q width %d weight %d)", pn, f.FamilyName, f.Width, f.Weight)
		}
		for i := 0; i < len(name); i++ {
			b := name[i]
			if b < 33 || b > 126 || strings.IndexByte("[](){}<>/%", b) >= 0 {
				t.Fatalf("PostScriptName %q contains the forbidden byte %#x (family %q width %d weight %d)", name, b, f.FamilyName, f.Width, f.Weight)
			}
		}
		special := strings.IndexAny(f.FamilyName, "[](){}<>/% ") >= 0
		for _, r := range f.FamilyName {
			if r > 126 {
				special = true
			}
		}
		stats.CaseIn("psname", stats.Hash(f.FamilyName, f.Width, f.Weight, f.IsBold, f.IsItalic, f.IsOblique), special,
			func() string {
				return fmt.Sprintf("%q width=%d weight=%d -> %q", f.FamilyName, f.Width, f.Weight, name)
			})
	})
}

// TestC20Huge: name inference on fonts at the upper end of the glyph-count
// range (32769..65535 glyphs, almost all without outline and without name),
// with character mappings and substitution rules whose glyphs lie anywhere in
// that range - a single substitution in format 1 stores the distance between
// a glyph and its substitute modulo 65536.
func TestC20Huge(t *testing.T) {
	rapid.Check(t, func(t *rapid.T) {
		n := rapid.SampledFrom([]int{32769, 40000, 65534, 65535}).Draw(t, "numGlyphs")
		gid := rapid.Custom(func(t *rapid.T) glyph.ID {
			return glyph.ID(rapid.OneOf(rapid.IntRange(1, n-1), rapid.IntRange(1, 40), rapid.IntRange(n-40, n-1)).Draw(t, "gid"))
		})
		o := &glyf.Outlines{Glyphs: make(glyf.Glyphs, n), Widths: make([]funit.Int16, n)}
		named := map[glyph.ID]string{}
		if rapid.Bool().Draw(t, "someNames") {
			o.Names = make([]string, n)
			o.Names[0] = ".notdef"
			for i := rapid.IntRange(0, 12).Draw(t, "nNamed"); i > 0; i-- {
				g := gid.Draw(t, "namedGid")
				nm := rapid.SampledFrom([]string{"A", "B", "f", "i", "l", "f_i", "A.1", "orn001", "space"}).Draw(t, "name")
				o.Names[g] = nm
				named[g] = nm
			}
		}
		f := &sfnt.Font{FamilyName: "Huge", UnitsPerEm: 1000, Outlines: o}
		cm := cmap.Format4{}
		for i := rapid.IntRange(0, 12).Draw(t, "nMapped"); i > 0; i-- {
			cm[uint16(rapid.SampledFrom([]rune{'A', 'B', 'C', 'f', 'i', 'l', 'x', 0xE9, 0x3A9}).Draw(t, "rune"))] = gid.Draw(t, "mappedGid")
		}
		f.InstallCMap(cm)
		f.Gsub = &gtab.Info{}
		for k := rapid.IntRange(1, 4).Draw(t, "nLookups"); k > 0; k-- {
			switch rapid.IntRange(0, 3).Draw(t, "lookupKind") {
			case 0:
				from, to := gid.Draw(t, "from"), gid.Draw(t, "to")
				f.Gsub.LookupList = append(f.Gsub.LookupList, &gtab.LookupTable{Meta: &gtab.LookupMetaInfo{LookupType: 1},
					Subtables: []gtab.Subtable{&gtab.Gsub1_1{Cov: map[glyph.ID]bool{from: true}, Delta: to - from}}})
			case 1:
				from, to := gid.Draw(t, "from"), gid.Draw(t, "to")
				f.Gsub.LookupList = append(f.Gsub.LookupList, &gtab.LookupTable{Meta: &gtab.LookupMetaInfo{LookupType: 1},
					Subtables: []gtab.Subtable{&gtab.Gsub1_2{Cov: map[glyph.ID]int{from: 0}, SubstituteGlyphIDs: []glyph.ID{to}}}})
			case 2:
				from := gid.Draw(t, "from")
				alts := rapid.SliceOfN(gid, 1, 3).Draw(t, "alts")
				f.Gsub.LookupList = append(f.Gsub.LookupList, &gtab.LookupTable{Meta: &gtab.LookupMetaInfo{LookupType: 3},
					Subtables: []gtab.Subtable{&gtab.Gsub3_1{Cov: map[glyph.ID]int{from: 0}, Alternates: [][]glyph.ID{alts}}}})
			default:
				from := gid.Draw(t, "from")
				in := rapid.SliceOfN(gid, 1, 3).Draw(t, "ligIn")
				f.Gsub.LookupList = append(f.Gsub.LookupList, &gtab.LookupTable{Meta: &gtab.LookupMetaInfo{LookupType: 4},
					Subtables: []gtab.Subtable{&gtab.Gsub4_1{Cov: map[glyph.ID]int{from: 0}, Repl: [][]gtab.Ligature{{{In: in, Out: gid.Draw(t, "ligOut")}}}}}})
			}
		}
		var got []string
		if pn := guard.Try(func() { got = f.MakeGlyphNames() }); pn != nil {
			t.Fatalf("MakeGlyphNames panicked on a font of %d glyphs: %s\nrules %v\n%s", n, pn, rulesOf(f), pn.Stack)
		}
		if err := checkNames(f, got); err != nil {
			var some []string
			for g := range named {
				some = append(some, fmt.Sprintf("%d=%q", g, got[g]))
			}
			t.Fatalf("%v\n  font of %d glyphs, original names %v, cmap %v, rules %v", err, n, named, cm, rulesOf(f))
		}
		if again := f.MakeGlyphNames(); strings.Join(again, "|") != strings.Join(got, "|") {
			t.Fatalf("MakeGlyphNames is not stable on a font of %d glyphs", n)
		}
		inferred := 0
		for i, nm := range got {
			if !ornPat.MatchString(nm) && named[glyph.ID(i)] == "" && i > 0 {
				inferred++
			}
		}
		stats.CaseIn("huge", stats.Hash(n, fmt.Sprint(named), fmt.Sprint(cm), fmt.Sprint(rulesOf(f))), inferred > 0, func() string {
			return fmt.Sprintf("%d glyphs, %d names inferred, rules %v", n, inferred, rulesOf(f))
		}, fmt.Sprintf("glyphs-%d", n))
	})
}
