package c15

import (
	"seehuhn.de/go/postscript/funit"
	"seehuhn.de/go/sfnt"
	"seehuhn.de/go/sfnt/cff"
	"seehuhn.de/go/sfnt/glyf"
)

func setWidths(f *sfnt.Font, w []int) {
	switch o := f.Outlines.(type) {
	case *glyf.Outlines:
		for i := range o.Widths {
			o.Widths[i] = funit.Int16(w[i])
		}
	case *cff.Outlines:
		for i, g := range o.Glyphs {
			g.Width = float64(w[i])
		}
	}
}
