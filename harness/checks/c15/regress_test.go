package c15

import (
	"bytes"
	"testing"

	"golang.org/x/text/language"

	"seehuhn.de/go/sfnt/opentype/gtab"
)

// TestC15RegressSkippedFeatureIndex: a language system whose feature index
// list holds 0xFFFF (which the reader skips) must not gain feature 0 when the
// table is written and read (repaired in /repo d906397).
func TestC15RegressSkippedFeatureIndex(t *testing.T) {
	tag := language.MustParse("und-Latn")
	info := &gtab.Info{
		ScriptList:  gtab.ScriptListInfo{tag: {Required: 0xFFFF, Optional: []gtab.FeatureIndex{0xFFFF, 1}}},
		FeatureList: gtab.FeatureListInfo{{Tag: "liga", Lookups: []gtab.LookupIndex{0}}, {Tag: "liga", Lookups: []gtab.LookupIndex{1}}},
		LookupList: gtab.LookupList{
			{Meta: &gtab.LookupMetaInfo{LookupType: 1}},
			{Meta: &gtab.LookupMetaInfo{LookupType: 1}},
		},
	}
	before := info.FindLookups(tag, map[string]bool{"liga": true})
	read, err := gtab.Read(bytes.NewReader(info.Encode()), gtab.TypeGsub)
	if err != nil {
		t.Fatal(err)
	}
	after := read.FindLookups(tag, map[string]bool{"liga": true})
	if !eqLookups(before, after) || len(after) != 1 || after[0] != 1 {
		t.Fatalf("FindLookups = %v before writing and reading, %v after (want [1]); language system after: %+v", before, after, read.ScriptList[tag])
	}
}
