package c15

import (
	"fmt"
	"sort"
	"testing"

	"golang.org/x/text/language"
	"pgregory.net/rapid"

	"seehuhn.de/go/sfnt"
	"seehuhn.de/go/sfnt/cmap"
	"seehuhn.de/go/sfnt/glyph"
	"seehuhn.de/go/sfnt/opentype/gtab"
	"verif/harness/fontcmp"
	genfont "verif/harness/gen/font"
	"verif/harness/gen/lookups"
	"verif/harness/guard"
	"verif/harness/stats"
)

func allLookups(ll gtab.LookupList) []gtab.LookupIndex {
	res := make([]gtab.LookupIndex, len(ll))
	for i := range res {
		res[i] = gtab.LookupIndex(i)
	}
	return res
}

func infoFor(ll gtab.LookupList, tag string) *gtab.Info {
	return &gtab.Info{
		ScriptList:  gtab.ScriptListInfo{language.MustParse("und-Latn-x-latn"): {Required: 0xFFFF, Optional: []gtab.FeatureIndex{0}}},
		FeatureList: []*gtab.Feature{{Tag: tag, Lookups: allLookups(ll)}},
		LookupList:  ll,
	}
}

// TestC15LayoutFlags: whole-pipeline layout with lookups that use lookup
// flags, GDEF classes, contexts and nested actions (gen/lookups, Defined
// mode), judged by the reference pipeline; text must be conserved.
func TestC15LayoutFlags(t *testing.T) {
	gsubAllow := []lookups.Format{12, 21, 31, 41, 51, 52, 53, 61, 62, 63} // 1.1 (delta) may leave the font's glyph range
	gposAllow := []lookups.Format{11, 12, 21, 22, 71, 72, 73, 81, 82, 83}
	rapid.Check(t, func(t *rapid.T) {
		c := genfont.Gen(genfont.Opts{MinGlyphs: 64, MaxGlyphs: 70, Layout: genfont.LayoutNone, NoWideCmap: true}).Draw(t, "font")
		f := c.Font
		env := lookups.GenEnv(false).Draw(t, "env")
		for _, g := range env.Alphabet {
			if int(g) >= f.NumGlyphs() {
				t.Skip("alphabet outside the font")
			}
		}
		m := cmap.Format4{}
		var runes []rune
		for _, g := range env.Alphabet {
			if g != 0 {
				m[uint16(0x100+int(g))] = g
				runes = append(runes, rune(0x100+int(g)))
			}
		}
		f.InstallCMap(m)
		f.Gdef = env.Gdef
		gs := lookups.GenLookups(env, lookups.Options{Kind: gtab.TypeGsub, Mode: lookups.Defined, MinLookups: 1, MaxLookups: 4, Allow: gsubAllow}).Draw(t, "gsub")
		f.Gsub = infoFor(gs.List, "liga")
		if rapid.Bool().Draw(t, "withGpos") {
			gp := lookups.GenLookups(env, lookups.Options{Kind: gtab.TypeGpos, Mode: lookups.Defined, MinLookups: 1, MaxLookups: 3, Allow: gposAllow}).Draw(t, "gpos")
			f.Gpos = infoFor(gp.List, "kern")
		}
		ctx := func() string {
			d := fmt.Sprintf("gdef=%s\nGSUB=%s", fontcmp.Dump(f.Gdef), fontcmp.Dump(f.Gsub.LookupList))
			if f.Gpos != nil {
				d += "\nGPOS=" + fontcmp.Dump(f.Gpos.LookupList)
			}
			if len(d) > 6000 {
				d = d[:6000] + "…"
			}
			return d
		}
		var l *sfnt.Layouter
		var err error
		if pn := guard.Try(func() { l, err = f.NewLayouter(language.English, nil, nil) }); pn != nil || err != nil {
			t.Fatalf("NewLayouter: %v %v", err, pn)
		}
		fired, judged := false, 0
		for i := 0; i < 12; i++ {
			n := rapid.IntRange(0, 10).Draw(t, "strLen")
			rr := make([]rune, n)
			for j := range rr {
				rr[j] = rapid.SampledFrom(runes).Draw(t, "r")
			}
			s := string(rr)
			var got []glyph.Info
			if pn := guard.Try(func() { got = append([]glyph.Info(nil), l.Layout(s)...) }); pn != nil {
				t.Fatalf("Layout(%q) panicked: %s\n%s\n%s", s, pn, ctx(), pn.Stack)
			}
			// text conservation
			var in, out []rune
			in = append(in, rr...)
			for _, g := range got {
				out = append(out, g.Text...)
			}
			sort.Slice(in, func(i, j int) bool { return in[i] < in[j] })
			sort.Slice(out, func(i, j int) bool { return out[i] < out[j] })
			if string(in) != string(out) {
				t.Fatalf("Layout(%q): text not conserved: glyphs carry %q\n  %s\n%s", s, string(out), infoStr(got), ctx())
			}
			if ref, ok := refPipeline(f, s, language.English, nil, nil); ok {
				judged++
				if infoStr(got) != infoStr(ref) {
					t.Fatalf("Layout(%q) = %s\n  reference pipeline gives %s\n%s", s, infoStr(got), infoStr(ref), ctx())
				}
			}
			if len(got) != n {
				fired = true
			}
		}
		stats.LabelN("layoutflags", "strings-judged-by-reference", int64(judged))
		stats.CaseIn("layoutflags", stats.Hash(ctx()), fired, func() string { return ctx()[:min(len(ctx()), 500)] }, append(gs.Classes, "kind-"+c.Kind.String())...)
	})
}
