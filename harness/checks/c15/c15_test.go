// C15: end-to-end layout: cmap, feature selection, widths and kerning compose right.
package c15

import (
	"bytes"
	"fmt"
	"sort"
	"strings"
	"testing"

	"golang.org/x/image/font"
	xsfnt "golang.org/x/image/font/sfnt"
	"golang.org/x/image/math/fixed"
	"golang.org/x/text/language"
	"pgregory.net/rapid"

	"seehuhn.de/go/postscript/funit"
	"seehuhn.de/go/sfnt"
	"seehuhn.de/go/sfnt/cmap"
	"seehuhn.de/go/sfnt/glyph"
	"seehuhn.de/go/sfnt/kern"
	"seehuhn.de/go/sfnt/opentype/classdef"
	"seehuhn.de/go/sfnt/opentype/gdef"
	"seehuhn.de/go/sfnt/opentype/gtab"
	genfont "verif/harness/gen/font"
	"verif/harness/gen/lookups"
	"verif/harness/guard"
	"verif/harness/ref/refsfnt"
	"verif/harness/ref/refshape"
	"verif/harness/stats"
)

func TestMain(m *testing.M) { stats.MainExit(m) }

// ---- feature selection -----------------------------------------------------

var featurePool = []string{"liga", "kern", "calt", "ccmp", "clig", "locl", "smcp", "mark", "mkmk", "ss01"}

func expectedLookups(info *gtab.Info, ls *gtab.Features, include map[string]bool) []gtab.LookupIndex {
	set := map[gtab.LookupIndex]bool{}
	nf := len(info.FeatureList)
	addFeature := func(fi gtab.FeatureIndex) {
		if int(fi) >= nf {
			return
		}
		for _, l := range info.FeatureList[fi].Lookups {
			if int(l) < len(info.LookupList) {
				set[l] = true
			}
		}
	}
	addFeature(ls.Required) // 0xFFFF and other out-of-range values: no required feature
	for _, fi := range ls.Optional {
		if int(fi) < nf && include[info.FeatureList[fi].Tag] {
			addFeature(fi)
		}
	}
	res := make([]gtab.LookupIndex, 0, len(set))
	for l := range set {
		res = append(res, l)
	}
	sort.Slice(res, func(i, j int) bool { return res[i] < res[j] })
	return res
}

func eqLookups(a, b []gtab.LookupIndex) bool {
	if len(a) != len(b) {
		return false
	}
	for i := range a {
		if a[i] != b[i] {
			return false
		}
	}
	return true
}

func genLang(t *rapid.T, keys []language.Tag) language.Tag {
	switch rapid.IntRange(0, 3).Draw(t, "langKind") {
	case 0:
		return rapid.SampledFrom(keys).Draw(t, "langKey")
	case 1:
		return rapid.SampledFrom([]language.Tag{language.English, language.German, language.Und, language.Turkish, language.Japanese,
			language.Russian, language.Arabic, language.AmericanEnglish, language.SimplifiedChinese}).Draw(t, "langStd")
	case 2:
		all := lookups.Tags()
		return all[rapid.IntRange(0, len(all)-1).Draw(t, "langAny")].Tag
	default:
		s := rapid.SampledFrom([]string{"de-CH", "sr-Cyrl", "und-Latn", "und-Grek", "x-private", "zh-Hant-TW", "en-Latn-x-latn"}).Draw(t, "langStr")
		tag, err := language.Parse(s)
		if err != nil {
			return language.Und
		}
		return tag
	}
}

func TestC15FindLookups(t *testing.T) {
	all := lookups.Tags()
	rapid.Check(t, func(t *rapid.T) {
		nLookups := rapid.IntRange(0, 8).Draw(t, "nLookups")
		info := &gtab.Info{ScriptList: gtab.ScriptListInfo{}}
		for i := 0; i < nLookups; i++ {
			info.LookupList = append(info.LookupList, &gtab.LookupTable{Meta: &gtab.LookupMetaInfo{LookupType: 1}})
		}
		nf := rapid.IntRange(0, 8).Draw(t, "nFeatures")
		for i := 0; i < nf; i++ {
			f := &gtab.Feature{Tag: rapid.SampledFrom(featurePool).Draw(t, "ftag")}
			k := rapid.IntRange(0, 5).Draw(t, "nfl")
			for j := 0; j < k; j++ {
				f.Lookups = append(f.Lookups, gtab.LookupIndex(rapid.OneOf(rapid.IntRange(0, 9), rapid.SampledFrom([]int{0, 7, 8, 100, 65535})).Draw(t, "fl")))
			}
			info.FeatureList = append(info.FeatureList, f)
		}
		// two features with different tags that share their lookups (locl
		// re-used by ss01, liga by dlig): in half of the cases, and then most
		// language systems list both, one directly after the other
		shareA, shareB := -1, -1
		if nf >= 2 && nLookups > 0 && rapid.Bool().Draw(t, "sharedLookups") {
			shareA = rapid.IntRange(0, nf-1).Draw(t, "shareA")
			shareB = (shareA + rapid.IntRange(1, nf-1).Draw(t, "shareB")) % nf
			fa, fb := info.FeatureList[shareA], info.FeatureList[shareB]
			if len(fa.Lookups) == 0 {
				fa.Lookups = append(fa.Lookups, gtab.LookupIndex(rapid.IntRange(0, nLookups-1).Draw(t, "sharedLookup")))
			}
			fb.Lookups = append(append([]gtab.LookupIndex{}, fa.Lookups...), fb.Lookups...)
			if fa.Tag == fb.Tag {
				for _, tag := range featurePool {
					if tag != fa.Tag {
						fb.Tag = tag
						break
					}
				}
			}
		}
		nls := rapid.OneOf(rapid.IntRange(1, 4), rapid.IntRange(1, 20)).Draw(t, "nLangSys")
		var keys []language.Tag
		// families of tags that agree in language, script and region and differ
		// only in the private-use part (both generations of an Indic script:
		// und-Deva-x-deva / und-Deva-x-dev2, two OpenType language tags of one
		// language): a quarter of the cases start with two or three members of
		// one family
		var familyPick []int
		if rapid.IntRange(0, 3).Draw(t, "tagFamily") == 0 {
			fam := tagFamilies(all)
			f := fam[rapid.IntRange(0, len(fam)-1).Draw(t, "family")]
			for _, idx := range rapid.Permutation(f).Draw(t, "familyOrder") {
				if len(familyPick) < 3 {
					familyPick = append(familyPick, idx)
				}
			}
		}
		for i := 0; i < nls || i < len(familyPick); i++ {
			var e lookups.TagEntry
			if i < len(familyPick) {
				e = all[familyPick[i]]
			} else {
				e = all[rapid.IntRange(0, len(all)-1).Draw(t, "lsTag")]
			}
			if _, ok := info.ScriptList[e.Tag]; ok {
				continue
			}
			ff := &gtab.Features{Required: gtab.FeatureIndex(rapid.SampledFrom([]int{0xFFFF, 0xFFFF, 0, 1, 2, 7, 9, 300}).Draw(t, "req"))}
			k := rapid.IntRange(0, 6).Draw(t, "nOpt")
			for j := 0; j < k; j++ {
				ff.Optional = append(ff.Optional, gtab.FeatureIndex(rapid.OneOf(rapid.IntRange(0, 9), rapid.SampledFrom([]int{8, 9, 1000, 0xFFFF})).Draw(t, "opt")))
			}
			if shareA >= 0 && rapid.IntRange(0, 3).Draw(t, "listsShared") > 0 {
				at := rapid.IntRange(0, len(ff.Optional)).Draw(t, "sharedAt")
				pair := []gtab.FeatureIndex{gtab.FeatureIndex(shareA), gtab.FeatureIndex(shareB)}
				ff.Optional = append(ff.Optional[:at:at], append(pair, ff.Optional[at:]...)...)
			}
			info.ScriptList[e.Tag] = ff
			keys = append(keys, e.Tag)
		}
		lang := genLang(t, keys)
		include := map[string]bool{}
		switch rapid.IntRange(0, 2).Draw(t, "inclKind") {
		case 0:
			include = nil
		case 1:
			for _, tag := range featurePool {
				if rapid.Bool().Draw(t, "incl") {
					include[tag] = true
				}
			}
		default:
			for k, v := range gtab.GsubDefaultFeatures {
				include[k] = v
			}
		}
		ctx := func() string {
			var sb strings.Builder
			ks := make([]string, 0, len(keys))
			for _, k := range keys {
				ks = append(ks, fmt.Sprintf("%s:{req=%d opt=%v}", k, info.ScriptList[k].Required, info.ScriptList[k].Optional))
			}
			sort.Strings(ks)
			fmt.Fprintf(&sb, "lang=%s include=%v lookups=%d features=%v\n  scriptlist=%v", lang, include, nLookups, info.FeatureList, ks)
			return sb.String()
		}
		var got []gtab.LookupIndex
		if pn := guard.Try(func() { got = info.FindLookups(lang, include) }); pn != nil {
			t.Fatalf("FindLookups panicked: %s\n%s", pn, ctx())
		}
		for i, l := range got {
			if int(l) >= nLookups {
				t.Fatalf("FindLookups returned out-of-range lookup %d (%d lookups)\n%s", l, nLookups, ctx())
			}
			if i > 0 && got[i-1] >= l {
				t.Fatalf("FindLookups result %v is not strictly ascending\n%s", got, ctx())
			}
		}
		distinctAnswers := map[string]bool{}
		matchesSome, matchesKey := false, false
		for _, k := range keys {
			want := expectedLookups(info, info.ScriptList[k], include)
			distinctAnswers[fmt.Sprint(want)] = true
			if eqLookups(want, got) {
				matchesSome = true
				if k == lang {
					matchesKey = true
				}
			}
		}
		if !matchesSome {
			t.Fatalf("FindLookups result %v is not the selection of any language system (required feature + enabled optional features, in-range lookups, sorted, unique)\n%s", got, ctx())
		}
		for i := 0; i < 50; i++ {
			again := info.FindLookups(lang, include)
			if !eqLookups(again, got) {
				t.Fatalf("FindLookups is not stable: first call %v, call %d gives %v\n%s", got, i+2, again, ctx())
			}
		}
		isKey := false
		for _, k := range keys {
			if k == lang {
				isKey = true
			}
		}
		var labels []string
		if isKey {
			labels = append(labels, "lang-is-key")
			if matchesKey {
				labels = append(labels, "lang-is-key-and-chosen")
			}
		}
		if len(distinctAnswers) >= 2 {
			labels = append(labels, "ambiguous")
		}
		// the same table as a file: the selection computed on the table read
		// from its encoding must not depend on how the file spells it.  The
		// second spelling lets FeatureRecords / language systems of equal
		// content share one Feature / LangSys table (what font compilers
		// write, never the library's own writer); only offsets differ.
		var enc []byte
		if guard.Try(func() { enc = info.Encode() }) == nil {
			if sh, n := lookups.ShareTables(enc); n > 0 {
				var plain, shared *gtab.Info
				var err1, err2 error
				pn := guard.Try(func() {
					plain, err1 = gtab.Read(bytes.NewReader(enc), gtab.TypeGsub)
					shared, err2 = gtab.Read(bytes.NewReader(sh), gtab.TypeGsub)
				})
				if pn != nil {
					t.Fatalf("gtab.Read panicked: %s\n%s", pn, ctx())
				}
				if (err1 == nil) != (err2 == nil) {
					t.Fatalf("the table is read in one spelling but not in the other (%d shared Feature/LangSys tables): plain err=%v, shared err=%v\n%s", n, err1, err2, ctx())
				}
				if err1 == nil {
					probes := []map[string]bool{include, nil, {}}
					for _, tag := range featurePool {
						probes = append(probes, map[string]bool{tag: true})
					}
					// and not on whether the table is asked before or after it
					// was written and read (when every language system
					// survives under its tag)
					sameKeys := len(plain.ScriptList) == len(info.ScriptList)
					for k := range info.ScriptList {
						if _, ok := plain.ScriptList[k]; !ok {
							sameKeys = false
						}
					}
					if sameKeys {
						for _, k := range keys {
							for _, inc := range probes {
								a, b := info.FindLookups(k, inc), plain.FindLookups(k, inc)
								if !eqLookups(a, b) {
									t.Fatalf("feature selection changes when the table is written and read: FindLookups(%s, %v) = %v before, %v after (language system before: %+v, after: %+v)\n%s", k, inc, a, b, info.ScriptList[k], plain.ScriptList[k], ctx())
								}
							}
						}
						labels = append(labels, "file-same-language-systems")
					}
					for _, inc := range probes {
						a, b := plain.FindLookups(lang, inc), shared.FindLookups(lang, inc)
						if !eqLookups(a, b) {
							t.Fatalf("feature selection depends on the spelling of the file: with %d FeatureRecords/language systems sharing their tables FindLookups(%s, %v) = %v, with separate tables %v\n%s", n, lang, inc, b, a, ctx())
						}
					}
					labels = append(labels, "file-with-shared-tables")
				}
			}
		}
		stats.CaseIn("findlookups", stats.Hash(ctx()), len(keys) >= 2 && len(distinctAnswers) >= 2, func() string { return ctx() + fmt.Sprintf(" -> %v", got) }, labels...)
	})
}

// tagFamilies groups the indices of tags that have the same language, script
// and region (families with at least two members).
var tagFamiliesCache [][]int

func tagFamilies(all []lookups.TagEntry) [][]int {
	if tagFamiliesCache != nil {
		return tagFamiliesCache
	}
	groups := map[string][]int{}
	var order []string
	for i, e := range all {
		b, sc, r := e.Tag.Raw()
		k := b.String() + "-" + sc.String() + "-" + r.String()
		if _, ok := groups[k]; !ok {
			order = append(order, k)
		}
		groups[k] = append(groups[k], i)
	}
	for _, k := range order {
		if len(groups[k]) >= 2 {
			tagFamiliesCache = append(tagFamiliesCache, groups[k])
		}
	}
	return tagFamiliesCache
}

// ---- whole pipeline ----------------------------------------------------------

func infoStr(seq []glyph.Info) string {
	var sb strings.Builder
	for _, g := range seq {
		fmt.Fprintf(&sb, "[%d %q %d,%d adv=%d]", g.GID, string(g.Text), g.XOffset, g.YOffset, g.Advance)
	}
	return sb.String()
}

func genString(t *rapid.T, runes []rune) string {
	n := rapid.IntRange(0, 8).Draw(t, "strLen")
	var sb strings.Builder
	for i := 0; i < n; i++ {
		if len(runes) > 0 && rapid.IntRange(0, 4).Draw(t, "mapped") > 0 {
			sb.WriteRune(rapid.SampledFrom(runes).Draw(t, "r"))
		} else {
			pool := []rune{'?', 0x3000, 0x1F600, 'Z', 0xFFFF, 0x10FFFF}
			// characters beyond the BMP that share their low 16 bits with a
			// mapped character (unmapped unless the font maps them as well)
			if len(runes) > 0 {
				r := rapid.SampledFrom(runes).Draw(t, "aliasOf")
				if r <= 0xFFFF {
					pool = append(pool, r+0x10000, r+0x10000, r+0x100000)
				}
			}
			sb.WriteRune(rapid.SampledFrom(pool).Draw(t, "unmapped"))
		}
	}
	return sb.String()
}

// refLookup reads the mapping out of the data of a decoded subtable (a map
// from character codes to glyphs) instead of asking its Lookup method: a
// code point outside the map, or outside the range of its keys, is unmapped.
func refLookup(st cmap.Subtable, r rune) glyph.ID {
	switch st := st.(type) {
	case cmap.Format4:
		if r < 0 || r > 0xFFFF {
			return 0
		}
		return st[uint16(r)]
	case cmap.Format12:
		if r < 0 {
			return 0
		}
		return st[uint32(r)]
	}
	return st.Lookup(r)
}

func mappedRunes(f *sfnt.Font) []rune {
	best, _ := f.CMapTable.GetBest()
	var res []rune
	switch st := best.(type) {
	case cmap.Format4:
		for c := range st {
			res = append(res, rune(c))
		}
	case cmap.Format12:
		for c := range st {
			res = append(res, rune(c))
		}
	}
	sort.Slice(res, func(i, j int) bool { return res[i] < res[j] })
	return res
}

// refPipeline is the same composition with the harness's reference shaper
// in place of gtab.Context.Apply; ok=false if the shaping falls into the
// region the reference model calls undefined.
func refPipeline(f *sfnt.Font, s string, lang language.Tag, gsubF, gposF map[string]bool) (seq []glyph.Info, ok bool) {
	best, err := f.CMapTable.GetBest()
	if err != nil {
		return nil, false
	}
	for _, r := range s {
		seq = append(seq, glyph.Info{GID: refLookup(best, r), Text: []rune{r}})
	}
	if f.Gsub != nil {
		if gsubF == nil {
			gsubF = gtab.GsubDefaultFeatures
		}
		res := refshape.Apply(f.Gsub.LookupList, f.Gdef, f.Gsub.FindLookups(lang, gsubF), seq)
		if len(res.Undefined) > 0 {
			return nil, false
		}
		seq = res.Seq
	}
	for i := range seq {
		isMark := f.Gdef != nil && f.Gdef.GlyphClass != nil && f.Gdef.GlyphClass[seq[i].GID] == 3
		if !isMark {
			seq[i].Advance = funit.Int16(f.GlyphWidth(seq[i].GID))
		}
	}
	if f.Gpos != nil {
		if gposF == nil {
			gposF = gtab.GposDefaultFeatures
		}
		res := refshape.Apply(f.Gpos.LookupList, f.Gdef, f.Gpos.FindLookups(lang, gposF), seq)
		if len(res.Undefined) > 0 {
			return nil, false
		}
		seq = res.Seq
	}
	return seq, true
}

// reference pipeline: composition of the library's documented stages.
func pipeline(f *sfnt.Font, s string, lang language.Tag, gsubF, gposF map[string]bool) ([]glyph.Info, error) {
	best, err := f.CMapTable.GetBest()
	if err != nil {
		return nil, err
	}
	var seq []glyph.Info
	for _, r := range s {
		seq = append(seq, glyph.Info{GID: best.Lookup(r), Text: []rune{r}})
	}
	if f.Gsub != nil {
		if gsubF == nil {
			gsubF = gtab.GsubDefaultFeatures
		}
		ll := f.Gsub.FindLookups(lang, gsubF)
		seq = gtab.NewContext(f.Gsub.LookupList, f.Gdef, ll).Apply(seq)
	}
	for i := range seq {
		isMark := f.Gdef != nil && f.Gdef.GlyphClass != nil && f.Gdef.GlyphClass[seq[i].GID] == 3
		if !isMark {
			seq[i].Advance = funit.Int16(f.GlyphWidth(seq[i].GID))
		}
	}
	if f.Gpos != nil {
		if gposF == nil {
			gposF = gtab.GposDefaultFeatures
		}
		ll := f.Gpos.FindLookups(lang, gposF)
		seq = gtab.NewContext(f.Gpos.LookupList, f.Gdef, ll).Apply(seq)
	}
	return seq, nil
}

func genFeatures(t *rapid.T, label string) map[string]bool {
	switch rapid.IntRange(0, 2).Draw(t, label) {
	case 0:
		return nil
	case 1:
		return map[string]bool{}
	default:
		m := map[string]bool{}
		for _, tag := range []string{"liga", "ccmp", "calt", "smcp", "kern", "mark", "cpsp"} {
			if rapid.Bool().Draw(t, label+"On") {
				m[tag] = true
			}
		}
		return m
	}
}

func TestC15Layout(t *testing.T) {
	rapid.Check(t, func(t *rapid.T) {
		c := genfont.Gen(genfont.Opts{MaxGlyphs: 16, MinGlyphs: 2, Layout: genfont.LayoutMaybe}).Draw(t, "font")
		f := c.Font
		if len(f.CMapTable) == 0 {
			t.Skip("no cmap")
		}
		runes := mappedRunes(f)
		lang := rapid.SampledFrom([]language.Tag{language.English, language.German, language.Und, language.Turkish, language.Russian,
			language.MustParse("und-Latn-x-latn"), language.MustParse("de-Latn-x-latn-deu")}).Draw(t, "lang")
		gsubF, gposF := genFeatures(t, "gsubF"), genFeatures(t, "gposF")
		strs := []string{genString(t, runes), genString(t, runes), genString(t, runes)}
		ctx := func() string {
			return fmt.Sprintf("lang=%s gsub=%v gpos=%v strings=%q\n%s", lang, gsubF, gposF, strs, c)
		}

		var l *sfnt.Layouter
		var err error
		if pn := guard.Try(func() { l, err = f.NewLayouter(lang, gsubF, gposF) }); pn != nil {
			t.Fatalf("NewLayouter panicked: %s\n%s", pn, ctx())
		}
		if err != nil {
			t.Fatalf("NewLayouter failed: %v\n%s", err, ctx())
		}
		fired := false
		for _, s := range strs {
			var got []glyph.Info
			if pn := guard.Try(func() { got = append([]glyph.Info(nil), l.Layout(s)...) }); pn != nil {
				if strings.Contains(pn.Site, "gtab.") {
					t.Skip("panic inside lookup application (C07)")
				}
				t.Fatalf("Layout(%q) panicked: %s\n%s", s, pn, ctx())
			}
			var want []glyph.Info
			if pn := guard.Try(func() { want, err = pipeline(f, s, lang, gsubF, gposF) }); pn != nil || err != nil {
				t.Skip("reference pipeline not applicable")
			}
			if infoStr(got) != infoStr(want) {
				t.Fatalf("Layout(%q) = %s\n  stage composition gives %s\n%s", s, infoStr(got), infoStr(want), ctx())
			}
			if ref, ok := refPipeline(f, s, lang, gsubF, gposF); ok {
				if infoStr(got) != infoStr(ref) {
					t.Fatalf("Layout(%q) = %s\n  reference pipeline (reference shaper) gives %s\n%s", s, infoStr(got), infoStr(ref), ctx())
				}
				stats.Label("layout", "judged-by-reference-shaper")
			} else {
				stats.Label("layout", "reference-shaper-abstains")
			}
			// fresh layouter gives the same (no state carried between calls)
			l2, _ := f.NewLayouter(lang, gsubF, gposF)
			if fresh := infoStr(l2.Layout(s)); fresh != infoStr(got) {
				t.Fatalf("Layout(%q) on a reused layouter = %s, on a fresh one %s\n%s", s, infoStr(got), fresh, ctx())
			}
			if f.Gsub == nil && f.Gpos == nil {
				rr := []rune(s)
				if len(got) != len(rr) {
					t.Fatalf("no layout rules, but Layout(%q) has %d glyphs for %d characters\n%s", s, len(got), len(rr), ctx())
				}
				best, _ := f.CMapTable.GetBest()
				for i, g := range got {
					wantAdv := funit.Int16(f.GlyphWidth(refLookup(best, rr[i])))
					if f.Gdef != nil && f.Gdef.GlyphClass[g.GID] == 3 {
						wantAdv = 0
					}
					if g.GID != refLookup(best, rr[i]) || string(g.Text) != string(rr[i]) || g.Advance != wantAdv || g.XOffset != 0 || g.YOffset != 0 {
						t.Fatalf("no layout rules, Layout(%q)[%d] = %v, want gid %d text %q advance %d\n%s", s, i, g, refLookup(best, rr[i]), string(rr[i]), wantAdv, ctx())
					}
				}
			} else {
				// did any rule fire?
				plain, _ := pipeline(&sfnt.Font{Outlines: f.Outlines, CMapTable: f.CMapTable, Gdef: f.Gdef}, s, lang, nil, nil)
				if infoStr(plain) != infoStr(got) {
					fired = true
				}
			}
		}
		labels := append([]string{}, c.Labels...)
		// A more preferred cmap key holding a subtable in a format the library
		// has no decoder for (format 13, "many-to-one range mappings", as in
		// last-resort fonts): the font still has its usable subtable, so text
		// is laid out exactly as before - or, by an implementation that reads
		// format 13, through that subtable, which maps nothing here.
		if _, has := f.CMapTable[cmap.Key{PlatformID: 3, EncodingID: 10}]; !has && rapid.Bool().Draw(t, "exoticPreferredSubtable") {
			f2 := f.Clone()
			f2.CMapTable = cmap.Table{}
			for k, v := range f.CMapTable {
				f2.CMapTable[k] = v
			}
			// one group mapping U+E000..U+E000 to glyph 0
			f2.CMapTable[cmap.Key{PlatformID: 3, EncodingID: 10}] = []byte{0, 13, 0, 0, 0, 0, 0, 28, 0, 0, 0, 0, 0, 0, 0, 1,
				0, 0, 0xE0, 0, 0, 0, 0xE0, 0, 0, 0, 0, 0}
			var l3 *sfnt.Layouter
			var err3 error
			if pn := guard.Try(func() { l3, err3 = f2.NewLayouter(lang, gsubF, gposF) }); pn != nil {
				t.Fatalf("NewLayouter panicked with an additional (3,10) format 13 cmap subtable: %s\n%s", pn, ctx())
			}
			if err3 != nil {
				t.Fatalf("NewLayouter fails once the font has an additional (3,10) cmap subtable in format 13, although its other subtables are usable: %v\n%s", err3, ctx())
			}
			for _, s := range strs {
				a, b := infoStr(l.Layout(s)), infoStr(l3.Layout(s))
				allNotdef := true
				for _, g := range l3.Layout(s) {
					allNotdef = allNotdef && g.GID == 0
				}
				if a != b && !allNotdef {
					t.Fatalf("Layout(%q) changes when a (3,10) format 13 cmap subtable is added: %s -> %s\n%s", s, a, b, ctx())
				}
			}
			labels = append(labels, "exotic-preferred-cmap-subtable")
		}
		if fired {
			labels = append(labels, "rule-fired")
		}
		stats.CaseIn("layout", stats.Hash(ctx()), fired, func() string { return ctx() }, labels...)
	})
}

// ---- legacy kern tables ------------------------------------------------------

type kernSub struct {
	flags byte // low byte of coverage
	pairs map[[2]uint16]int16
}

func buildKern(subs []kernSub) []byte {
	var b []byte
	u16 := func(v int) { b = append(b, byte(v>>8), byte(v)) }
	u16(0)
	u16(len(subs))
	for _, s := range subs {
		keys := make([][2]uint16, 0, len(s.pairs))
		for k := range s.pairs {
			keys = append(keys, k)
		}
		sort.Slice(keys, func(i, j int) bool {
			if keys[i][0] != keys[j][0] {
				return keys[i][0] < keys[j][0]
			}
			return keys[i][1] < keys[j][1]
		})
		n := len(keys)
		u16(0)
		u16(14 + 6*n)
		b = append(b, 0, s.flags) // format 0, coverage flags
		u16(n)
		es := 0
		for (1 << (es + 1)) <= n {
			es++
		}
		sr := 0
		if n > 0 {
			sr = 6 << es
		}
		u16(sr)
		u16(es)
		u16(6*n - sr)
		for _, k := range keys {
			u16(int(k[0]))
			u16(int(k[1]))
			u16(int(uint16(s.pairs[k])))
		}
	}
	return b
}

// refKern computes the kerning of a pair from the subtables as the OpenType
// kern chapter defines it: horizontal kerning subtables accumulate, a
// minimum subtable limits the accumulated value from below, an override
// subtable replaces it.
func refKern(subs []kernSub, a, b uint16) (result int, representable bool) {
	val, have := 0, false
	representable = true
	for _, s := range subs {
		if s.flags&0x01 == 0 || s.flags&0x04 != 0 {
			continue // vertical or cross-stream: not horizontal kerning
		}
		v, ok := s.pairs[[2]uint16{a, b}]
		if !ok {
			continue
		}
		switch {
		case s.flags&0x02 != 0:
			if val < int(v) {
				val = int(v)
			}
		case s.flags&0x08 != 0:
			val = int(v)
		default:
			val += int(v)
		}
		if val < -32768 || val > 32767 {
			// the accumulated kerning leaves the 16-bit range of the design
			// unit types: no implementation with FWORD values can hold it
			representable = false
		}
		have = true
	}
	_ = have
	return val, representable
}

func TestC15Kern(t *testing.T) {
	rapid.Check(t, func(t *rapid.T) {
		c := genfont.Gen(genfont.Opts{MaxGlyphs: 8, MinGlyphs: 3, Layout: genfont.LayoutNone, NoWideCmap: true}).Draw(t, "font")
		f := c.Font
		n := f.NumGlyphs()
		// every glyph i>=1 reachable through U+0100+i
		m := cmap.Format4{}
		for i := 1; i < n; i++ {
			m[uint16(0x100+i)] = glyph.ID(i)
		}
		f.InstallCMap(m)
		f.Gdef = nil
		// half of the fonts classify their glyphs: marks start from advance 0
		// (C15: "each non-mark glyph its advance width"), and the kern
		// table's pairs apply to them like to any other glyph
		isMark := make([]bool, n)
		nMarks := 0
		if rapid.Bool().Draw(t, "withGdef") {
			cls := classdef.Table{}
			for i := 1; i < n; i++ {
				switch rapid.IntRange(0, 5).Draw(t, "glyphClass") {
				case 0, 1:
					cls[glyph.ID(i)] = gdef.GlyphClassMark
					isMark[i] = true
					nMarks++
				case 2:
					cls[glyph.ID(i)] = gdef.GlyphClassBase
				case 3:
					cls[glyph.ID(i)] = gdef.GlyphClassLigature
				}
			}
			f.Gdef = &gdef.Table{GlyphClass: cls}
		}
		baseAdv := func(gid int) int {
			if isMark[gid] {
				return 0
			}
			return int(funit.Int16(f.GlyphWidth(glyph.ID(gid))))
		}
		var buf bytes.Buffer
		if _, err := f.Write(&buf); err != nil {
			t.Fatalf("Write: %v", err)
		}
		rf, err := refsfnt.Parse(buf.Bytes())
		if err != nil {
			t.Fatal(err)
		}
		ns := rapid.IntRange(1, 4).Draw(t, "nSub")
		subs := make([]kernSub, ns)
		single := ns == 1
		for i := range subs {
			fl := rapid.SampledFrom([]byte{0x01, 0x01, 0x01, 0x03, 0x09, 0x00, 0x05}).Draw(t, "kflags")
			if single {
				fl = 0x01
			}
			subs[i] = kernSub{flags: fl, pairs: map[[2]uint16]int16{}}
			np := rapid.IntRange(0, 10).Draw(t, "nPairs")
			for j := 0; j < np; j++ {
				k := [2]uint16{uint16(rapid.IntRange(0, n-1).Draw(t, "kl")), uint16(rapid.IntRange(0, n-1).Draw(t, "kr"))}
				if i > 0 && len(subs[i-1].pairs) > 0 && rapid.Bool().Draw(t, "samePairAsBefore") {
					// a pair an earlier subtable has a value for: a later
					// subtable adds to it, limits it from below or replaces it
					var keys [][2]uint16
					for kk := range subs[i-1].pairs {
						keys = append(keys, kk)
					}
					sort.Slice(keys, func(a, b int) bool {
						return keys[a][0] < keys[b][0] || (keys[a][0] == keys[b][0] && keys[a][1] < keys[b][1])
					})
					k = rapid.SampledFrom(keys).Draw(t, "earlierPair")
				}
				subs[i].pairs[k] = int16(rapid.OneOf(rapid.IntRange(-300, 300), rapid.SampledFrom([]int{-32768, -1, 0, 0, 1, 32767})).Draw(t, "kv"))
			}
		}
		// tables of real fonts exceed the 16-bit subtable length field (more
		// than 10920 pairs: Cambria, Calibri); readers take the pair count,
		// not the wrapped length.  Filler pairs for glyph 0 sort in front of
		// all pairs of the font's other glyphs.
		if rapid.IntRange(0, 7).Draw(t, "hugeSubtable") == 0 {
			nFill := rapid.SampledFrom([]int{10900, 10915, 10918, 10920, 10921, 10923, 12000, 16000}).Draw(t, "nFiller")
			k := rapid.IntRange(0, ns-1).Draw(t, "hugeWhich")
			for r := 0; r < nFill; r++ {
				subs[k].pairs[[2]uint16{0, uint16(r)}] = int16(r%7 - 3)
			}
			single = false
			stats.Label("kern", fmt.Sprintf("subtable-with-%d-filler-pairs", nFill))
		}
		tables := rf.Tables()
		tables["kern"] = buildKern(subs)
		file := refsfnt.Assemble(rf.Scaler, tables)
		ctx := func() string { return fmt.Sprintf("kern subtables %v\n%s", subs, c) }

		var g *sfnt.Font
		if pn := guard.Try(func() { g, err = sfnt.Read(bytes.NewReader(file)) }); pn != nil {
			t.Fatalf("Read panicked: %s\n%s", pn, ctx())
		}
		if err != nil {
			t.Fatalf("Read of a kern-only font failed: %v\n%s", err, ctx())
		}
		l, err := g.NewLayouter(language.English, nil, nil)
		if err != nil {
			t.Fatalf("NewLayouter: %v\n%s", err, ctx())
		}
		var xf *xsfnt.Font
		if single {
			xf, _ = xsfnt.Parse(file)
		}
		nonzero := 0
		for a := 1; a < n; a++ {
			for b := 1; b < n; b++ {
				s := string([]rune{rune(0x100 + a), rune(0x100 + b)})
				var out []glyph.Info
				if pn := guard.Try(func() { out = append([]glyph.Info(nil), l.Layout(s)...) }); pn != nil {
					t.Fatalf("Layout panicked: %s\n%s", pn, ctx())
				}
				if len(out) != 2 || int(out[0].GID) != a || int(out[1].GID) != b {
					t.Fatalf("Layout of glyph pair (%d,%d) gives %s\n%s", a, b, infoStr(out), ctx())
				}
				want, representable := refKern(subs, uint16(a), uint16(b))
				if !representable {
					stats.Label("kern", "pair-sum-beyond-16-bit")
					continue
				}
				wa := baseAdv(a)
				got := int(out[0].Advance) - wa
				if wa+want > 32767 || wa+want < -32768 {
					continue // advance not representable in 16 bits
				}
				if got != want {
					t.Fatalf("pair (%d,%d): advance adjusted by %d, kern table says %d\n%s", a, b, got, want, ctx())
				}
				if int(out[1].Advance) != baseAdv(b) || out[0].XOffset != 0 || out[1].XOffset != 0 {
					t.Fatalf("pair (%d,%d): unexpected adjustments %s\n%s", a, b, infoStr(out), ctx())
				}
				if want != 0 {
					nonzero++
				}
				if xf != nil {
					var xb xsfnt.Buffer
					k, err := xf.Kern(&xb, xsfnt.GlyphIndex(a), xsfnt.GlyphIndex(b), fixed.Int26_6(g.UnitsPerEm), font.HintingNone)
					if err == nil && int(k) != want {
						t.Fatalf("pair (%d,%d): x/image Kern=%d, reference %d\n%s", a, b, k, want, ctx())
					}
				}
			}
		}
		// longer runs: every adjacent pair is kerned, also where pairs overlap
		// (the second glyph of one pair is the first glyph of the next)
		chains := 0
		for i := 0; i < 12 && n > 1; i++ {
			k := rapid.IntRange(3, 8).Draw(t, "runLen")
			gids := make([]int, k)
			rr := make([]rune, k)
			for j := range gids {
				gids[j] = rapid.IntRange(1, n-1).Draw(t, "runGlyph")
				rr[j] = rune(0x100 + gids[j])
			}
			var out []glyph.Info
			if pn := guard.Try(func() { out = append([]glyph.Info(nil), l.Layout(string(rr))...) }); pn != nil {
				t.Fatalf("Layout panicked: %s\n%s", pn, ctx())
			}
			if len(out) != k {
				t.Fatalf("Layout of glyphs %v gives %s\n%s", gids, infoStr(out), ctx())
			}
			want := make([]int, k)
			ok, kerned := true, 0
			for j := range gids {
				want[j] = baseAdv(gids[j])
				if j+1 < k {
					kv, representable := refKern(subs, uint16(gids[j]), uint16(gids[j+1]))
					if !representable || want[j]+kv > 32767 || want[j]+kv < -32768 {
						ok = false
						break
					}
					want[j] += kv
					if kv != 0 {
						kerned++
					}
				}
			}
			if !ok {
				continue
			}
			for j := range gids {
				if int(out[j].GID) != gids[j] || int(out[j].Advance) != want[j] || out[j].XOffset != 0 || out[j].YOffset != 0 {
					t.Fatalf("run %v: glyph %d comes out as %s, want advance %d (all: %s)\n%s", gids, j, infoStr(out[j:j+1]), want[j], infoStr(out), ctx())
				}
			}
			if kerned >= 2 {
				chains++
			}
		}
		labels := []string{fmt.Sprintf("subtables-%d", ns), "kind-" + c.Kind.String()}
		if f.Gdef != nil {
			labels = append(labels, fmt.Sprintf("gdef-with-%d-marks", min(nMarks, 3)))
		}
		if chains > 0 {
			labels = append(labels, "run-with-overlapping-kerned-pairs")
		}
		for _, s := range subs {
			labels = append(labels, fmt.Sprintf("flags-%#02x", s.flags))
		}
		stats.CaseIn("kern", stats.Hash(file), nonzero > 0, func() string { return ctx() }, labels...)
	})
}

// ---- standard ligatures --------------------------------------------------------

func TestC15Ligatures(t *testing.T) {
	ligs := []struct {
		r    rune
		comp string
	}{{0xFB03, "ffi"}, {0xFB04, "ffl"}, {0xFB00, "ff"}, {0xFB01, "fi"}, {0xFB02, "fl"}}
	rapid.Check(t, func(t *rapid.T) {
		c := genfont.Gen(genfont.Opts{MaxGlyphs: 12, MinGlyphs: 10, Layout: genfont.LayoutNone, NoWideCmap: true}).Draw(t, "font")
		f := c.Font
		f.Gdef = nil
		// distinct glyphs for f, i, l, a and the ligatures the font has
		m := cmap.Format4{'a': 1}
		gid := glyph.ID(2)
		for _, r := range "fil" {
			if rapid.IntRange(0, 9).Draw(t, "hasLetter") > 0 {
				m[uint16(r)] = gid
			}
			gid++
		}
		for _, l := range ligs {
			if rapid.Bool().Draw(t, "hasLig") {
				m[uint16(l.r)] = gid
			}
			gid++
		}
		f.InstallCMap(m)
		// width patterns: proportional, all equal, all equal except one
		// glyph (.notdef half of the time), all equal with zero widths mixed
		// in (zero widths do not count: still fixed pitch)
		pattern := rapid.SampledFrom([]string{"proportional", "proportional", "proportional", "fixed", "one-differs", "one-differs", "fixed-with-zeros"}).Draw(t, "widthPattern")
		fixed := pattern == "fixed" || pattern == "fixed-with-zeros"
		setWidth := func(i int, w int) {
			switch o := f.Outlines.(type) {
			case interface{ NumGlyphs() int }:
				_ = o
			}
		}
		_ = setWidth
		widths := make([]int, f.NumGlyphs())
		for i := range widths {
			widths[i] = 500
			switch pattern {
			case "proportional":
				widths[i] = 400 + 17*i
			case "fixed-with-zeros":
				if i > 0 && rapid.IntRange(0, 3).Draw(t, "zeroWidth") == 0 {
					widths[i] = 0
				}
			}
		}
		if pattern == "one-differs" {
			odd := 0
			if rapid.Bool().Draw(t, "oddIsNotNotdef") {
				odd = rapid.IntRange(1, len(widths)-1).Draw(t, "oddGlyph")
			}
			widths[odd] = rapid.SampledFrom([]int{499, 501, 600, 250, 1000}).Draw(t, "oddWidth")
		}
		setWidths(f, widths)
		var buf bytes.Buffer
		if _, err := f.Write(&buf); err != nil {
			t.Fatalf("Write: %v", err)
		}
		g, err := sfnt.Read(bytes.NewReader(buf.Bytes()))
		if err != nil {
			t.Fatalf("Read: %v", err)
		}
		l, err := g.NewLayouter(language.English, nil, nil)
		if err != nil {
			t.Fatalf("NewLayouter: %v", err)
		}
		// available ligatures in the library's documented preference order
		type lg struct {
			comp []glyph.ID
			out  glyph.ID
		}
		var avail []lg
		if !fixed {
			for _, x := range ligs {
				out := m[uint16(x.r)]
				if out == 0 {
					continue
				}
				var comp []glyph.ID
				ok := true
				for _, r := range x.comp {
					if m[uint16(r)] == 0 {
						ok = false
					}
					comp = append(comp, m[uint16(r)])
				}
				if ok {
					avail = append(avail, lg{comp, out})
				}
			}
		}
		ctx := func() string { return fmt.Sprintf("cmap %v fixedPitch=%v\n%s", m, fixed, c) }
		strs := []string{"ffi", "ffl", "ff", "fi", "fl", "affib", "fflfi", "fffi", rapid.StringMatching(`[afil]{0,8}`).Draw(t, "s")}
		applied := 0
		for _, s := range strs {
			var in []glyph.ID
			for _, r := range s {
				in = append(in, m[uint16(r)])
			}
			var want []glyph.ID
			for i := 0; i < len(in); {
				matched := false
				for _, a := range avail {
					if i+len(a.comp) <= len(in) {
						ok := true
						for k := range a.comp {
							if in[i+k] != a.comp[k] || in[i+k] == 0 {
								ok = false
							}
						}
						if ok {
							want = append(want, a.out)
							i += len(a.comp)
							matched = true
							applied++
							break
						}
					}
				}
				if !matched {
					want = append(want, in[i])
					i++
				}
			}
			var out []glyph.Info
			if pn := guard.Try(func() { out = append([]glyph.Info(nil), l.Layout(s)...) }); pn != nil {
				t.Fatalf("Layout(%q) panicked: %s\n%s", s, pn, ctx())
			}
			var got []glyph.ID
			var text strings.Builder
			for _, o := range out {
				got = append(got, o.GID)
				text.WriteString(string(o.Text))
			}
			if fmt.Sprint(got) != fmt.Sprint(want) {
				t.Fatalf("Layout(%q) gives glyphs %v, want %v (ligatures available: %v)\n%s", s, got, want, avail, ctx())
			}
			if text.String() != s {
				t.Fatalf("Layout(%q): text attached to the glyphs is %q\n%s", s, text.String(), ctx())
			}
		}
		// the caller's feature switches are honoured for the synthesised
		// ligature feature too: with "liga" switched off every character
		// keeps its own glyph
		if lOff, err := g.NewLayouter(language.English, map[string]bool{"liga": false}, nil); err == nil {
			for _, s := range strs {
				var out []glyph.Info
				if pn := guard.Try(func() { out = append([]glyph.Info(nil), lOff.Layout(s)...) }); pn != nil {
					t.Fatalf("Layout(%q) with liga switched off panicked: %s\n%s", s, pn, ctx())
				}
				var got, want []glyph.ID
				for _, o := range out {
					got = append(got, o.GID)
				}
				for _, r := range s {
					want = append(want, m[uint16(r)])
				}
				if fmt.Sprint(got) != fmt.Sprint(want) {
					t.Fatalf("Layout(%q) with the feature switches {liga: false} gives glyphs %v, want one glyph per character %v\n%s", s, got, want, ctx())
				}
			}
		}
		labels := []string{fmt.Sprintf("ligatures-%d", len(avail))}
		if fixed {
			labels = append(labels, "fixed-pitch")
		}
		stats.CaseIn("ligatures", stats.Hash(buf.Bytes()), applied > 0, func() string { return ctx() }, labels...)
	})
}

// TestC15RegressKernWrappedLength: subtables whose pair count makes the
// 16-bit length field wrap to less than the header size (10921, 10922 pairs)
// were rejected, and a subtable following a wrapped one was looked for at the
// wrong offset.
func TestC15RegressKernWrappedLength(t *testing.T) {
	for _, n := range []int{10920, 10921, 10922, 10923, 12000} {
		subs := []kernSub{{flags: 0x01, pairs: map[[2]uint16]int16{}}, {flags: 0x01, pairs: map[[2]uint16]int16{{3, 4}: 25}}}
		for r := 0; r < n; r++ {
			subs[0].pairs[[2]uint16{0, uint16(r)}] = 1
		}
		subs[0].pairs[[2]uint16{3, 4}] = -100
		info, err := kern.Read(bytes.NewReader(buildKern(subs)))
		if err != nil {
			t.Fatalf("%d pairs: kern.Read: %v", n+1, err)
		}
		want, _ := refKern(subs, 3, 4)
		if got := int(info[glyph.Pair{Left: 3, Right: 4}]); got != want {
			t.Fatalf("%d pairs in the first of two subtables: pair (3,4) kerned by %d, the table says %d", n+1, got, want)
		}
		stats.CaseIn("regress", stats.Hash("kern-wrapped", n), true, func() string {
			return fmt.Sprintf("kern table: subtable with %d pairs followed by a second subtable", n+1)
		})
	}
}
