// C07: shaping is safe, terminating, text-conserving and history-independent.
package c07

import (
	"bytes"
	"fmt"
	"golang.org/x/text/language"
	"sort"
	"strings"
	"testing"
	"time"

	"pgregory.net/rapid"

	"seehuhn.de/go/sfnt/glyph"
	"seehuhn.de/go/sfnt/opentype/gdef"
	"seehuhn.de/go/sfnt/opentype/gtab"
	"verif/harness/fontcmp"
	"verif/harness/gen/lookups"
	"verif/harness/guard"
	"verif/harness/stats"
)

func TestMain(m *testing.M) { stats.MainExit(m) }

// unimplemented reports positioning data the library declares unimplemented
// (vertical advance, device offsets, GPOS type 5) anywhere in the list.
func unimplemented(ll gtab.LookupList) bool {
	bad := func(v *gtab.GposValueRecord) bool {
		return v != nil && (v.YAdvance != 0 || v.XPlacementDevOffs != 0 || v.YPlacementDevOffs != 0 || v.XAdvanceDevOffs != 0 || v.YAdvanceDevOffs != 0)
	}
	for _, l := range ll {
		if l == nil {
			continue
		}
		for _, st := range l.Subtables {
			switch t := st.(type) {
			case *gtab.Gpos1_1:
				if bad(t.Adjust) {
					return true
				}
			case *gtab.Gpos1_2:
				for _, a := range t.Adjust {
					if bad(a) {
						return true
					}
				}
			case gtab.Gpos2_1:
				for _, a := range t {
					if a != nil && (bad(a.First) || bad(a.Second)) {
						return true
					}
				}
			case *gtab.Gpos2_2:
				for _, row := range t.Adjust {
					for _, a := range row {
						if a != nil && (bad(a.First) || bad(a.Second)) {
							return true
						}
					}
				}
			case *gtab.Gpos5_1:
				return true
			}
		}
	}
	return false
}

// growth facts for the length clause
func lengthFacts(ll gtab.LookupList) (canGrow, canShrink bool) {
	for _, l := range ll {
		if l == nil {
			continue
		}
		for _, st := range l.Subtables {
			switch t := st.(type) {
			case *gtab.Gsub2_1:
				for _, r := range t.Repl {
					if len(r) >= 2 {
						canGrow = true
					}
				}
			case *gtab.Gsub4_1:
				for _, set := range t.Repl {
					for _, lig := range set {
						if len(lig.In) >= 1 {
							canShrink = true
						}
					}
				}
			}
		}
	}
	return
}

func render(seq []glyph.Info) string {
	var sb strings.Builder
	for _, g := range seq {
		fmt.Fprintf(&sb, "[%d %q %d,%d %d]", g.GID, string(g.Text), g.XOffset, g.YOffset, g.Advance)
	}
	return sb.String()
}

// genSeq draws a sequence of 0..200 glyphs over the full gid range, biased
// to the alphabet, every glyph carrying 0-3 runes that are unique within
// the sequence.
func genSeq(t *rapid.T, alphabet []glyph.ID, label string) []glyph.Info {
	n := rapid.OneOf(rapid.IntRange(0, 8), rapid.IntRange(0, 40), rapid.IntRange(0, 200)).Draw(t, label+"Len")
	seq := make([]glyph.Info, n)
	next := rune(0x4E00)
	for i := range seq {
		if rapid.IntRange(0, 9).Draw(t, label+"Any") == 0 {
			seq[i].GID = glyph.ID(rapid.OneOf(rapid.IntRange(0, 0xFFFF), rapid.SampledFrom([]int{0, 1, 0xFFFE, 0xFFFF})).Draw(t, label+"Gid"))
		} else {
			seq[i].GID = rapid.SampledFrom(alphabet).Draw(t, label+"A")
		}
		k := rapid.SampledFrom([]int{0, 1, 1, 1, 2, 3}).Draw(t, label+"Runes")
		for j := 0; j < k; j++ {
			seq[i].Text = append(seq[i].Text, next)
			next++
		}
		seq[i].Advance = 100
	}
	return seq
}

func clone(seq []glyph.Info) []glyph.Info {
	out := make([]glyph.Info, len(seq))
	for i, g := range seq {
		out[i] = g
		out[i].Text = append([]rune(nil), g.Text...)
	}
	return out
}

// cloneShared copies a sequence the way a caller that decodes one string
// does: all Text fields are adjacent sub-slices of a single rune array (so
// each has spare capacity reaching into its neighbour's text).
func cloneShared(seq []glyph.Info) []glyph.Info {
	var all []rune
	for _, g := range seq {
		all = append(all, g.Text...)
	}
	out := make([]glyph.Info, len(seq))
	pos := 0
	for i, g := range seq {
		out[i] = g
		out[i].Text = all[pos : pos+len(g.Text)]
		pos += len(g.Text)
	}
	return out
}

func runes(seq []glyph.Info) string {
	var rr []rune
	for _, g := range seq {
		rr = append(rr, g.Text...)
	}
	sort.Slice(rr, func(i, j int) bool { return rr[i] < rr[j] })
	return string(rr)
}

// apply runs ctx.Apply under the panic guard and the watchdog.
func apply(ctx *gtab.Context, seq []glyph.Info, what string) (out []glyph.Info, pn *guard.Panic) {
	in := clone(seq)
	if len(seq)%2 == 1 {
		in = cloneShared(seq)
	}
	guard.Watch("c07-apply", []byte(what), 60*time.Second, func() {
		pn = guard.Try(func() { out = clone(ctx.Apply(in)) })
	})
	return
}

type wcase struct {
	ll     gtab.LookupList
	gd     *gdef.Table
	order  []gtab.LookupIndex
	labels []string
	dump   string
	alpha  []glyph.ID
	budget bool
}

func describe(ll gtab.LookupList, gd *gdef.Table, order []gtab.LookupIndex) string {
	var sb strings.Builder
	fmt.Fprintf(&sb, "order=%v\ngdef=%s\n", order, fontcmp.Dump(gd))
	for i, l := range ll {
		if l == nil {
			fmt.Fprintf(&sb, "lookup %d: nil\n", i)
			continue
		}
		fmt.Fprintf(&sb, "lookup %d: type=%d flags=%#x markset=%d\n", i, l.Meta.LookupType, uint16(l.Meta.LookupFlags), l.Meta.MarkFilteringSet)
		for j, st := range l.Subtables {
			d := fontcmp.Dump(st)
			if len(d) > 1500 {
				d = d[:1500] + "…"
			}
			fmt.Fprintf(&sb, "   subtable %d: %T %s\n", j, st, d)
		}
	}
	return sb.String()
}

// checkHistory runs a history of Apply calls on one Context followed by a
// probe, and checks safety, text conservation, the length clause and
// independence from the history.
func checkHistory(t *rapid.T, c *wcase, hist [][]glyph.Info, probe []glyph.Info) (fired bool) {
	ctx := gtab.NewContext(c.ll, c.gd, c.order)
	canGrow, canShrink := lengthFacts(c.ll)
	check := func(in, out []glyph.Info, what string) {
		if a, b := runes(in), runes(out); a != b {
			t.Fatalf("%s: text not conserved: input runes %q, output runes %q\n  in:  %s\n  out: %s\n%s", what, a, b, render(in), render(out), c.dump)
		}
		if !canGrow && len(out) > len(in) {
			t.Fatalf("%s: output has %d glyphs, input %d, but no replacement list has two or more glyphs\n  in:  %s\n  out: %s\n%s", what, len(out), len(in), render(in), render(out), c.dump)
		}
		if !canShrink && len(out) < len(in) {
			t.Fatalf("%s: output has %d glyphs, input %d, but no ligature has components\n  in:  %s\n  out: %s\n%s", what, len(out), len(in), render(in), render(out), c.dump)
		}
		if render(in) != render(out) {
			fired = true
		}
	}
	for i, seq := range hist {
		out, pn := apply(ctx, seq, c.dump)
		if pn != nil {
			if stats.Known("C07", pn.Key()) {
				return fired
			}
			t.Fatalf("Apply panicked (call %d of the history): %s\n  in: %s\n%s\n%s", i+1, pn, render(seq), c.dump, pn.Stack)
		}
		check(seq, out, fmt.Sprintf("history call %d", i+1))
	}
	got, pn := apply(ctx, probe, c.dump)
	if pn != nil {
		if stats.Known("C07", pn.Key()) {
			return fired
		}
		t.Fatalf("Apply panicked (probe call after %d calls): %s\n  in: %s\n%s\n%s", len(hist), pn, render(probe), c.dump, pn.Stack)
	}
	check(probe, got, "probe call")
	fresh, pn := apply(gtab.NewContext(c.ll, c.gd, c.order), probe, c.dump)
	if pn != nil {
		t.Fatalf("Apply panicked on a fresh context although the reused one did not: %s\n%s", pn, c.dump)
	}
	if render(got) != render(fresh) {
		var hs []string
		for _, h := range hist {
			hs = append(hs, render(h))
		}
		t.Fatalf("result depends on earlier calls of the same Context:\n  history: %s\n  probe:   %s\n  reused context: %s\n  fresh context:  %s\n%s", strings.Join(hs, "\n           "), render(probe), render(got), render(fresh), c.dump)
	}
	return fired
}

func genOrder(t *rapid.T, n int) []gtab.LookupIndex {
	var order []gtab.LookupIndex
	k := rapid.IntRange(1, max(1, n)).Draw(t, "nApplied")
	for i := 0; i < k; i++ {
		order = append(order, gtab.LookupIndex(rapid.OneOf(rapid.IntRange(0, max(0, n-1)), rapid.IntRange(0, n+2)).Draw(t, "applied")))
	}
	if rapid.Bool().Draw(t, "sortedOrder") {
		sort.Slice(order, func(i, j int) bool { return order[i] < order[j] })
	}
	return order
}

func TestC07Wild(t *testing.T) {
	rapid.Check(t, func(t *rapid.T) {
		env := lookups.GenEnv(rapid.IntRange(0, 3).Draw(t, "wide") == 0).Draw(t, "env")
		kind := gtab.Type(gtab.TypeGsub)
		if rapid.IntRange(0, 2).Draw(t, "gpos") == 0 {
			kind = gtab.TypeGpos
		}
		res := lookups.GenLookups(env, lookups.Options{Kind: kind, Mode: lookups.Wild, MinLookups: 1, MaxLookups: 6}).Draw(t, "lookups")
		c := &wcase{ll: res.List, gd: env.Gdef, alpha: env.Alphabet}
		if rapid.IntRange(0, 9).Draw(t, "nilGdef") == 0 {
			c.gd = nil
		}
		c.order = genOrder(t, len(c.ll))
		c.dump = describe(c.ll, c.gd, c.order)
		if unimplemented(c.ll) {
			stats.Label("wild", "excluded-unimplemented")
			t.Skip("unimplemented positioning data")
		}
		var hist [][]glyph.Info
		for i := rapid.IntRange(0, 5).Draw(t, "nHist"); i > 0; i-- {
			hist = append(hist, genSeq(t, env.Alphabet, "h"))
		}
		probe := genSeq(t, env.Alphabet, "p")
		fired := checkHistory(t, c, hist, probe)
		labels := append([]string{fmt.Sprintf("kind-%v", kind), fmt.Sprintf("history-%d", len(hist))}, res.Classes...)
		stats.CaseIn("wild", stats.Hash(c.dump, render(probe), len(hist)), fired, func() string {
			d := c.dump
			if len(d) > 400 {
				d = d[:400] + "…"
			}
			return fmt.Sprintf("history of %d calls, probe %s\n%s", len(hist), render(probe), d)
		}, labels...)
	})
}

// mutate applies structure-aware mutations to an encoded GSUB/GPOS table.
func mutate(t *rapid.T, b []byte) []byte {
	b = append([]byte(nil), b...)
	if len(b) < 12 {
		return b
	}
	n := rapid.IntRange(0, 3).Draw(t, "nMut")
	for i := 0; i < n; i++ {
		pos := 2 * rapid.IntRange(2, len(b)/2-1).Draw(t, "mutPos")
		switch rapid.IntRange(0, 3).Draw(t, "mutKind") {
		case 0:
			v := rapid.SampledFrom([]int{0, 1, 2, 0x7FFF, 0x8000, 0xFFFF, len(b), len(b) - 2}).Draw(t, "const")
			b[pos], b[pos+1] = byte(v>>8), byte(v)
		case 1:
			b[pos+1] ^= 1 << rapid.IntRange(0, 7).Draw(t, "bit")
		case 2:
			// alias: copy another 16-bit field here
			src := 2 * rapid.IntRange(2, len(b)/2-1).Draw(t, "src")
			b[pos], b[pos+1] = b[src], b[src+1]
		default:
			d := rapid.IntRange(-3, 3).Draw(t, "delta")
			v := (int(b[pos])<<8 | int(b[pos+1])) + d
			b[pos], b[pos+1] = byte(v>>8), byte(v)
		}
	}
	if rapid.IntRange(0, 9).Draw(t, "truncate") == 0 {
		b = b[:rapid.IntRange(10, len(b)).Draw(t, "cut")]
	}
	return b
}

var selectionLanguages = []language.Tag{language.English, language.Japanese, language.Greek, language.Russian, language.Arabic, language.Und, language.MustParse("yi"), language.MustParse("zh-Hant")}

func scriptTags(info *gtab.Info) []string {
	var res []string
	for tag := range info.ScriptList {
		res = append(res, tag.String())
	}
	sort.Strings(res)
	return res
}

func TestC07Decoded(t *testing.T) {
	rapid.Check(t, func(t *rapid.T) {
		env := lookups.GenEnv(false).Draw(t, "env")
		kind := gtab.Type(gtab.TypeGsub)
		if rapid.IntRange(0, 2).Draw(t, "gpos") == 0 {
			kind = gtab.TypeGpos
		}
		mode := lookups.Wild
		if rapid.Bool().Draw(t, "defined") {
			mode = lookups.Defined
		}
		ir := lookups.GenInfo(env, lookups.Options{Kind: kind, Mode: mode, MinLookups: 1, MaxLookups: 5}, lookups.InfoOptions{}).Draw(t, "info")
		var enc []byte
		if pn := guard.Try(func() { enc = ir.Info.Encode() }); pn != nil {
			t.Skip("not encodable (C08)")
		}
		if rapid.IntRange(0, 2).Draw(t, "extensionForm") == 0 {
			// the same table with every lookup spelled through extension
			// subtables, mostly valid, sometimes with a hostile record
			// (extension of an extension, record pointing at itself, ...)
			hostile := rapid.Bool().Draw(t, "extHostile")
			if e2, ok := lookups.Extensionize(enc, kind, lookups.ExtOptions{Hostile: func(label string, n int) int {
				if !hostile || rapid.IntRange(0, 2).Draw(t, label+"Dev") != 0 {
					return 0
				}
				return rapid.IntRange(0, n-1).Draw(t, label)
			}}); ok {
				enc = e2
				if hostile {
					stats.Label("decoded", "extension-form-hostile")
				} else {
					stats.Label("decoded", "extension-form")
				}
			}
		}
		data := mutate(t, enc)
		var info, info2 *gtab.Info
		var err error
		if pn := guard.Try(func() { info, err = gtab.Read(bytes.NewReader(data), kind) }); pn != nil {
			t.Skip("decoder panic (C02)")
		}
		if err != nil {
			stats.Label("decoded", "rejected")
			t.Skip("rejected")
		}
		info2, err = gtab.Read(bytes.NewReader(data), kind)
		if err != nil {
			t.Fatalf("second decode of the same bytes failed: %v", err)
		}
		// GDEF: the generated one, or one decoded from a mutated encoding
		gd := env.Gdef
		if rapid.IntRange(0, 2).Draw(t, "mutGdef") == 0 {
			var ge []byte
			if guard.Try(func() { ge = env.Gdef.Encode() }) == nil && len(ge) >= 12 {
				if g2, err := gdef.Read(bytes.NewReader(mutate(t, ge))); err == nil && g2 != nil {
					gd = g2
				}
			}
		}
		c := &wcase{ll: info.LookupList, gd: gd, alpha: env.Alphabet}
		c.order = genOrder(t, len(c.ll))
		c.dump = describe(c.ll, c.gd, c.order)
		if unimplemented(c.ll) {
			stats.Label("decoded", "excluded-unimplemented")
			t.Skip("unimplemented positioning data")
		}
		var hist [][]glyph.Info
		for i := rapid.IntRange(0, 3).Draw(t, "nHist"); i > 0; i-- {
			hist = append(hist, genSeq(t, env.Alphabet, "h"))
		}
		probe := genSeq(t, env.Alphabet, "p")
		fired := checkHistory(t, c, hist, probe)
		// structures decoded again from the same bytes (maps rebuilt) must
		// behave identically
		a, pn1 := apply(gtab.NewContext(info.LookupList, gd, c.order), probe, c.dump)
		b, pn2 := apply(gtab.NewContext(info2.LookupList, gd, c.order), probe, c.dump)
		if pn1 == nil && pn2 == nil && render(a) != render(b) {
			t.Fatalf("two decodings of the same bytes shape differently:\n  probe %s\n  first  %s\n  second %s\n%s", render(probe), render(a), render(b), c.dump)
		}
		// lookup selection: repeated calls, and the second decoding, choose
		// the same lookups for every language (also for languages none of the
		// font's scripts matches, where a fallback entry is used)
		selLabel := ""
		for _, lang := range selectionLanguages {
			var first []gtab.LookupIndex
			for rep := 0; rep < 6; rep++ {
				in := info
				if rep%2 == 1 {
					in = info2
				}
				var got []gtab.LookupIndex
				if pn := guard.Try(func() { got = in.FindLookups(lang, nil) }); pn != nil {
					t.Fatalf("FindLookups(%v) panicked: %s\n%s", lang, pn, c.dump)
				}
				if rep == 0 {
					first = got
				} else if fmt.Sprint(got) != fmt.Sprint(first) {
					t.Fatalf("FindLookups(%v, nil) is not a function of the table: call 1 gave %v, call %d gave %v\nscripts: %v\n%s", lang, first, rep+1, got, scriptTags(info), c.dump)
				}
			}
		}
		if len(info.ScriptList) > 1 {
			selLabel = "selection-several-scripts"
		}
		mutated := !bytes.Equal(data, enc)
		labels := []string{fmt.Sprintf("kind-%v", kind), "mode-" + mode.String()}
		if selLabel != "" {
			labels = append(labels, selLabel)
		}
		if mutated {
			labels = append(labels, "mutated-accepted")
		}
		stats.CaseIn("decoded", stats.Hash(data, render(probe), len(hist)), fired, func() string {
			return fmt.Sprintf("%d-byte %v table (mutated=%v), history %d, probe %s", len(data), kind, mutated, len(hist), render(probe))
		}, labels...)
	})
}
