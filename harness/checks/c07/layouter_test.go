package c07

import (
	"bytes"
	"fmt"
	"sort"
	"strings"
	"testing"
	"time"

	"golang.org/x/text/language"
	"pgregory.net/rapid"

	"seehuhn.de/go/sfnt"
	"seehuhn.de/go/sfnt/cmap"
	"seehuhn.de/go/sfnt/glyph"
	"seehuhn.de/go/sfnt/opentype/gtab"
	"verif/harness/fontcmp"
	genfont "verif/harness/gen/font"
	"verif/harness/gen/lookups"
	"verif/harness/guard"
	"verif/harness/stats"
)

// TestC07Layouter checks the property at its second observation point,
// (*sfnt.Layouter).Layout: a font is given wild (or generated-then-read-back)
// GSUB/GPOS/GDEF tables over its glyphs, its character map sends a small
// alphabet of characters to those glyphs, and a history of Layout calls on
// one Layouter is followed by a probe.  Every call terminates without panic
// and conserves the text (each character of the string is attached to exactly
// one output glyph); the probe result equals that of a fresh Layouter and of
// a Layouter of a font read back from the written file (maps rebuilt).
func TestC07Layouter(t *testing.T) {
	rapid.Check(t, func(t *rapid.T) {
		c := genfont.Gen(genfont.Opts{MinGlyphs: 14, MaxGlyphs: 40, Layout: genfont.LayoutNone, NoWideCmap: true}).Draw(t, "font")
		f := c.Font
		n := f.NumGlyphs()
		env := lookups.GenEnv(false).Draw(t, "env")
		// the lookups speak about the env's alphabet; keep the part inside the font
		var alpha []glyph.ID
		for _, g := range env.Alphabet {
			if int(g) < n {
				alpha = append(alpha, g)
			}
		}
		if len(alpha) < 3 {
			t.Skip("alphabet outside the font")
		}
		mode := lookups.Wild
		if rapid.Bool().Draw(t, "defined") {
			mode = lookups.Defined
		}
		gsub := lookups.GenInfo(env, lookups.Options{Kind: gtab.TypeGsub, Mode: mode, MinLookups: 1, MaxLookups: 5}, lookups.InfoOptions{}).Draw(t, "gsub")
		f.Gsub = gsub.Info
		if rapid.Bool().Draw(t, "withGpos") {
			gpos := lookups.GenInfo(env, lookups.Options{Kind: gtab.TypeGpos, Mode: mode, MinLookups: 1, MaxLookups: 4}, lookups.InfoOptions{}).Draw(t, "gpos")
			if !unimplemented(gpos.Info.LookupList) {
				f.Gpos = gpos.Info
			}
		}
		if rapid.IntRange(0, 3).Draw(t, "withGdef") > 0 {
			f.Gdef = env.Gdef
		}
		// every feature reachable whatever the language: one script entry
		// that requires/permits all features
		for _, info := range []*gtab.Info{f.Gsub, f.Gpos} {
			if info == nil {
				continue
			}
			ff := &gtab.Features{Required: 0xFFFF}
			for i := range info.FeatureList {
				ff.Optional = append(ff.Optional, gtab.FeatureIndex(i))
			}
			info.ScriptList = gtab.ScriptListInfo{language.MustParse("und-Latn"): ff}
		}
		m := cmap.Format4{}
		var chars []rune
		for i, g := range alpha {
			r := rune('a' + i)
			m[uint16(r)] = g
			chars = append(chars, r)
		}
		chars = append(chars, '?') // unmapped: glyph 0
		f.CMapTable = cmap.Table{{PlatformID: 3, EncodingID: 1}: m.Encode(0)}

		features := map[string]bool{}
		for _, info := range []*gtab.Info{f.Gsub, f.Gpos} {
			if info != nil {
				for _, ft := range info.FeatureList {
					features[ft.Tag] = true
				}
			}
		}
		dump := func() string {
			gp := "none"
			if f.Gpos != nil {
				gp = describe(f.Gpos.LookupList, nil, nil) + fontcmp.Dump(f.Gpos.FeatureList)
			}
			return fmt.Sprintf("%s\ncmap: a.. -> %v\nGSUB: %s%s\nGPOS: %s\nGDEF: %v", c, alpha, describe(f.Gsub.LookupList, f.Gdef, nil), fontcmp.Dump(f.Gsub.FeatureList), gp, f.Gdef != nil)
		}
		genText := func(lab string) string {
			k := rapid.OneOf(rapid.IntRange(0, 6), rapid.IntRange(0, 40)).Draw(t, lab+"Len")
			var sb strings.Builder
			for i := 0; i < k; i++ {
				sb.WriteRune(rapid.SampledFrom(chars).Draw(t, lab+"Ch"))
			}
			return sb.String()
		}
		newLayouter := func(g *sfnt.Font, what string) *sfnt.Layouter {
			var l *sfnt.Layouter
			var err error
			if pn := guard.Try(func() { l, err = g.NewLayouter(language.English, features, features) }); pn != nil {
				t.Fatalf("NewLayouter (%s) panicked: %s\n%s\n%s", what, pn, dump(), pn.Stack)
			}
			if err != nil {
				t.Fatalf("NewLayouter (%s): %v\n%s", what, err, dump())
			}
			return l
		}
		layout := func(l *sfnt.Layouter, s, what string) string {
			var out []glyph.Info
			var pn *guard.Panic
			guard.Watch("c07-layout", []byte(s), 60*time.Second, func() {
				pn = guard.Try(func() { out = clone(l.Layout(s)) })
			})
			if pn != nil {
				if stats.Known("C07", pn.Key()) {
					t.Skip("known finding")
				}
				t.Fatalf("Layout(%q) panicked (%s): %s\n%s\n%s", s, what, pn, dump(), pn.Stack)
			}
			var rr []rune
			for _, g := range out {
				rr = append(rr, g.Text...)
			}
			want := []rune(s)
			sort.Slice(rr, func(i, j int) bool { return rr[i] < rr[j] })
			sort.Slice(want, func(i, j int) bool { return want[i] < want[j] })
			if string(rr) != string(want) {
				t.Fatalf("Layout(%q) (%s): text not conserved: output carries %q\n  out: %s\n%s", s, what, string(rr), render(out), dump())
			}
			return render(out)
		}

		l := newLayouter(f, "shared")
		nh := rapid.IntRange(0, 4).Draw(t, "nHist")
		for i := 0; i < nh; i++ {
			layout(l, genText("h"), fmt.Sprintf("history call %d", i+1))
		}
		probe := genText("p")
		got := layout(l, probe, "probe")
		fresh := layout(newLayouter(f, "fresh"), probe, "fresh layouter")
		if got != fresh {
			t.Fatalf("Layout(%q) depends on earlier calls of the same Layouter:\n  reused: %s\n  fresh:  %s\n%s", probe, got, fresh, dump())
		}
		// the same font after Write+Read (all maps rebuilt)
		readBack := false
		var buf bytes.Buffer
		var err error
		if pn := guard.Try(func() { _, err = f.Write(&buf) }); pn == nil && err == nil {
			var g *sfnt.Font
			if pn := guard.Try(func() { g, err = sfnt.Read(bytes.NewReader(buf.Bytes())) }); pn == nil && err == nil {
				// only comparable when the tables survived unchanged (wild
				// tables need not be encodable one-to-one: C08's domain)
				same := fontcmp.DeepDiff("Gsub", f.Gsub.LookupList, g.Gsub.LookupList) == "" && fontcmp.DeepDiff("Gdef", f.Gdef, g.Gdef) == "" &&
					(f.Gpos == nil) == (g.Gpos == nil) && (f.Gpos == nil || fontcmp.DeepDiff("Gpos", f.Gpos.LookupList, g.Gpos.LookupList) == "")
				if same {
					again := layout(newLayouter(g, "read back"), probe, "font read back")
					if again != fresh {
						sel := func(h *sfnt.Font) string {
							res := fmt.Sprint("gsub ", h.Gsub.FindLookups(language.English, features))
							if h.Gpos != nil {
								res += fmt.Sprint(" gpos ", h.Gpos.FindLookups(language.English, features), " scripts ", scriptTags(h.Gpos))
							}
							return res
						}
						dd := fontcmp.DeepDiff("Gsub.LookupList", f.Gsub.LookupList, g.Gsub.LookupList) + fontcmp.DeepDiff("Gdef", f.Gdef, g.Gdef)
						if f.Gpos != nil {
							dd += fontcmp.DeepDiff("Gpos.LookupList", f.Gpos.LookupList, g.Gpos.LookupList)
						}
						t.Fatalf("Layout(%q) differs for the font read back from its own file:\n  original:  %s\n  read back: %s\n  selected lookups: original %s, read back %s\n  structural difference: %q\n%s", probe, fresh, again, sel(f), sel(g), dd, dump())
					}
					readBack = true
				}
			}
		}
		fired := false
		for _, g := range strings.Split(got, "]") {
			_ = g
		}
		plain := layout(newLayouter(func() *sfnt.Font { h := *f; h.Gsub, h.Gpos = nil, nil; return &h }(), "no layout tables"), probe, "no layout tables")
		fired = plain != got
		labels := []string{"mode-" + mode.String(), fmt.Sprintf("history-%d", nh), "kind-" + c.Kind.String()}
		if readBack {
			labels = append(labels, "compared-with-read-back")
		}
		if f.Gpos != nil {
			labels = append(labels, "gpos")
		}
		stats.CaseIn("layouter", stats.Hash(dump(), probe, nh), fired && nh > 0, func() string {
			return fmt.Sprintf("Layouter: history of %d calls, probe %q -> %s", nh, probe, got)
		}, labels...)
	})
}
