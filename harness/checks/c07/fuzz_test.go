package c07

import (
	"bytes"
	"fmt"
	"os"
	"path/filepath"
	"strconv"
	"testing"

	"golang.org/x/text/language"
	"pgregory.net/rapid"

	"seehuhn.de/go/sfnt/glyph"
	"seehuhn.de/go/sfnt/opentype/gtab"
	"verif/harness/gen/lookups"
	"verif/harness/guard"
	"verif/harness/stats"
)

// fuzzOne is the oracle of the byte-level target: whatever gtab.Read accepts
// must shape safely, conserve text and not depend on the context's history.
func fuzzOne(t *testing.T, data []byte, gpos bool, seqBytes []byte) {
	kind := gtab.Type(gtab.TypeGsub)
	if gpos {
		kind = gtab.TypeGpos
	}
	var info *gtab.Info
	var err error
	if pn := guard.Try(func() { info, err = gtab.Read(bytes.NewReader(data), kind) }); pn != nil {
		return // decoder totality is C02's property
	}
	if err != nil || info == nil || unimplemented(info.LookupList) {
		return
	}
	var seq []glyph.Info
	next := rune(0x4E00)
	for i := 0; i+1 < len(seqBytes) && len(seq) < 200; i += 2 {
		g := glyph.Info{GID: glyph.ID(seqBytes[i])<<8 | glyph.ID(seqBytes[i+1]), Advance: 100}
		if g.GID > 0xFF00 { // bias to small ids where coverage tables live
			g.GID &= 0x3F
		}
		for k := 0; k < int(seqBytes[i])%3; k++ {
			g.Text = append(g.Text, next)
			next++
		}
		seq = append(seq, g)
	}
	var order []gtab.LookupIndex
	for i := range info.LookupList {
		order = append(order, gtab.LookupIndex(i))
	}
	what := fmt.Sprintf("fuzz table %d bytes kind=%v", len(data), kind)
	ctx := gtab.NewContext(info.LookupList, nil, order)
	out1, pn := apply(ctx, seq, what)
	if pn != nil {
		if stats.Known("C07", pn.Key()) {
			return
		}
		t.Fatalf("Apply panicked: %s\n  in: %s\n%s", pn, render(seq), pn.Stack)
	}
	if a, b := runes(seq), runes(out1); a != b {
		t.Fatalf("text not conserved: %q -> %q\n  in:  %s\n  out: %s", a, b, render(seq), render(out1))
	}
	out2, pn := apply(ctx, seq, what)
	if pn != nil {
		t.Fatalf("second Apply on the same context panicked: %s", pn)
	}
	if render(out1) != render(out2) {
		t.Fatalf("second Apply on the same context differs:\n  first:  %s\n  second: %s", render(out1), render(out2))
	}
	for i := 0; i < 3; i++ {
		a := info.FindLookups(language.English, gtab.GsubDefaultFeatures)
		b := info.FindLookups(language.English, gtab.GsubDefaultFeatures)
		if fmt.Sprint(a) != fmt.Sprint(b) {
			t.Fatalf("FindLookups not stable: %v vs %v", a, b)
		}
	}
	fired := render(out1) != render(seq)
	stats.CaseIn("fuzz", stats.Hash(data, seqBytes, gpos), fired, func() string {
		return fmt.Sprintf("%d-byte %v table accepted by gtab.Read, sequence %s", len(data), kind, render(seq))
	})
}

func FuzzC07Apply(f *testing.F) {
	f.Add([]byte{0, 1, 0, 0, 0, 10, 0, 12, 0, 14, 0, 0, 0, 0, 0, 0}, false, []byte{0, 1, 0, 2})
	f.Fuzz(func(t *testing.T, data []byte, gpos bool, seqBytes []byte) {
		fuzzOne(t, data, gpos, seqBytes)
	})
}

// TestC07MakeCorpus writes seed inputs for FuzzC07Apply (valid encodings of
// generated tables) when VERIF_WRITE_CORPUS names a directory.
func TestC07MakeCorpus(t *testing.T) {
	dir := os.Getenv("VERIF_WRITE_CORPUS")
	if dir == "" {
		t.Skip("VERIF_WRITE_CORPUS not set")
	}
	dir = filepath.Join(dir, "FuzzC07Apply")
	os.MkdirAll(dir, 0o755)
	n := 0
	rapid.Check(t, func(t *rapid.T) {
		env := lookups.GenEnv(false).Draw(t, "env")
		kind := gtab.Type(gtab.TypeGsub)
		gpos := rapid.Bool().Draw(t, "gpos")
		if gpos {
			kind = gtab.TypeGpos
		}
		mode := lookups.Wild
		if rapid.Bool().Draw(t, "defined") {
			mode = lookups.Defined
		}
		ir := lookups.GenInfo(env, lookups.Options{Kind: kind, Mode: mode, MinLookups: 1, MaxLookups: 4}, lookups.InfoOptions{}).Draw(t, "info")
		var enc []byte
		if guard.Try(func() { enc = ir.Info.Encode() }) != nil || len(enc) > 3000 {
			return
		}
		var sb []byte
		for i := 0; i < 12; i++ {
			g := rapid.SampledFrom(env.Alphabet).Draw(t, "g")
			sb = append(sb, byte(g>>8), byte(g))
		}
		if n < 40 {
			body := fmt.Sprintf("go test fuzz v1\n[]byte(%s)\nbool(%v)\n[]byte(%s)\n", strconv.Quote(string(enc)), gpos, strconv.Quote(string(sb)))
			os.WriteFile(filepath.Join(dir, fmt.Sprintf("gen-%02d", n)), []byte(body), 0o644)
			n++
		}
	})
}
