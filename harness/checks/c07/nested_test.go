package c07

import (
	"fmt"
	"testing"

	"pgregory.net/rapid"

	"seehuhn.de/go/sfnt/glyph"
	"seehuhn.de/go/sfnt/opentype/classdef"
	"seehuhn.de/go/sfnt/opentype/coverage"
	"seehuhn.de/go/sfnt/opentype/gdef"
	"seehuhn.de/go/sfnt/opentype/gtab"
	"verif/harness/gen/lookups"
	"verif/harness/stats"
)

// TestC07NestedHistory: contexts calling contexts calling length-changing
// lookups (also with out-of-range and self-referential actions), every
// sequence of length <= 4 applied on ONE Context; each result must equal the
// result of a fresh Context and conserve text.
func TestC07NestedHistory(t *testing.T) {
	rapid.Check(t, func(t *rapid.T) {
		alpha := []glyph.ID{1, 2, 3, 4, 5}
		gd := &gdef.Table{GlyphClass: classdef.Table{5: gdef.GlyphClassMark}}
		g := func(label string) glyph.ID { return rapid.SampledFrom(alpha[:4]).Draw(t, label) }
		flags := func(label string) gtab.LookupFlags {
			return rapid.SampledFrom([]gtab.LookupFlags{0, 0, 0, gtab.IgnoreMarks}).Draw(t, label)
		}
		nCtx := rapid.IntRange(2, 3).Draw(t, "nContexts")
		total := nCtx + 3
		wild := rapid.IntRange(0, 3).Draw(t, "wild") == 0
		var ll gtab.LookupList
		for i := 0; i < nCtx; i++ {
			first := g("ctxFirst")
			nIn := rapid.IntRange(0, 2).Draw(t, "ctxInputLen")
			input := make([]glyph.ID, nIn)
			for k := range input {
				input[k] = g("ctxInput")
			}
			nAct := rapid.IntRange(1, 4).Draw(t, "nActions")
			if wild && rapid.IntRange(0, 4).Draw(t, "manyActions") == 0 {
				nAct = rapid.IntRange(60, 90).Draw(t, "nActionsMany")
			}
			var actions []gtab.SeqLookup
			for k := 0; k < nAct; k++ {
				lo, hiSeq := i+1, nIn
				if wild {
					lo, hiSeq = 0, nIn+2 // self-referential / earlier lookups, out-of-range positions
				}
				actions = append(actions, gtab.SeqLookup{
					SequenceIndex:   uint16(rapid.IntRange(0, hiSeq).Draw(t, "seqIdx")),
					LookupListIndex: gtab.LookupIndex(rapid.IntRange(lo, total).Draw(t, "actLookup")),
				})
			}
			var st gtab.Subtable
			sets := []coverage.Set{{first: true}}
			for _, x := range input {
				sets = append(sets, coverage.Set{x: true})
			}
			switch rapid.IntRange(0, 2).Draw(t, "ctxFormat") {
			case 0:
				st = &gtab.SeqContext1{Cov: lookups.CovTable([]glyph.ID{first}), Rules: [][]*gtab.SeqRule{{{Input: input, Actions: actions}}}}
			case 1:
				st = &gtab.SeqContext3{Input: sets, Actions: actions}
			default:
				st = &gtab.ChainedSeqContext3{Input: sets, Actions: actions}
			}
			ll = append(ll, &gtab.LookupTable{Meta: &gtab.LookupMetaInfo{LookupType: 5, LookupFlags: flags("ctxFlags")}, Subtables: []gtab.Subtable{st}})
		}
		nExp := rapid.IntRange(2, 3).Draw(t, "expLen")
		exp := make([]glyph.ID, nExp)
		for k := range exp {
			exp[k] = rapid.SampledFrom(alpha).Draw(t, "expGlyph")
		}
		ll = append(ll, &gtab.LookupTable{Meta: &gtab.LookupMetaInfo{LookupType: 2, LookupFlags: flags("expFlags")},
			Subtables: []gtab.Subtable{&gtab.Gsub2_1{Cov: lookups.CovTable([]glyph.ID{g("expFrom")}), Repl: [][]glyph.ID{exp}}}})
		ll = append(ll, &gtab.LookupTable{Meta: &gtab.LookupMetaInfo{LookupType: 1, LookupFlags: flags("subFlags")},
			Subtables: []gtab.Subtable{&gtab.Gsub1_2{Cov: lookups.CovTable([]glyph.ID{g("subFrom")}), SubstituteGlyphIDs: []glyph.ID{g("subTo")}}}})
		nLig := rapid.IntRange(1, 2).Draw(t, "ligLen")
		ligIn := make([]glyph.ID, nLig)
		for k := range ligIn {
			ligIn[k] = g("ligIn")
		}
		ll = append(ll, &gtab.LookupTable{Meta: &gtab.LookupMetaInfo{LookupType: 4, LookupFlags: flags("ligFlags")},
			Subtables: []gtab.Subtable{&gtab.Gsub4_1{Cov: lookups.CovTable([]glyph.ID{g("ligFirst")}), Repl: [][]gtab.Ligature{{{In: ligIn, Out: g("ligOut")}}}}}})

		runNestedHistory(t, ll, gd, alpha, nCtx, wild, "nested")
	})
}

// TestC07NestedCoherent is TestC07NestedHistory over the shared nested-list
// generator (two marks in different mark glyph sets, flags using either set,
// actions that prefer fitting lookups): state that a nested lookup leaves in
// the Context - buffers, cached filters - is reused by a later match or a
// later Apply call with other lookups.
func TestC07NestedCoherent(t *testing.T) {
	rapid.Check(t, func(t *rapid.T) {
		wild := rapid.IntRange(0, 3).Draw(t, "wild") == 0
		n := lookups.GenNested(t, lookups.NestedOptions{Wild: wild})
		if n.MergeFocus {
			stats.Label("nested-coherent", "merge-focus")
		}
		runNestedHistory(t, n.List, n.Gdef, n.Alphabet, n.NumCtx, wild, "nested-coherent")
	})
}

func runNestedHistory(t *rapid.T, ll gtab.LookupList, gd *gdef.Table, alpha []glyph.ID, nCtx int, wild bool, sub string) {
	{
		c := &wcase{ll: ll, gd: gd, alpha: alpha}
		if rapid.Bool().Draw(t, "onlyOuter") {
			c.order = []gtab.LookupIndex{0}
		} else {
			for i := range ll {
				c.order = append(c.order, gtab.LookupIndex(i))
			}
		}
		c.dump = describe(c.ll, c.gd, c.order)
		ctx := gtab.NewContext(c.ll, c.gd, c.order)
		canGrow, canShrink := lengthFacts(c.ll)
		_ = canGrow
		_ = canShrink
		fired := 0
		var rec func(prefix []glyph.ID)
		rec = func(prefix []glyph.ID) {
			seq := make([]glyph.Info, len(prefix))
			for i, x := range prefix {
				seq[i] = glyph.Info{GID: x, Text: []rune{rune(0x4E00 + i)}, Advance: 100}
			}
			got, pn := apply(ctx, seq, c.dump)
			if pn != nil {
				t.Fatalf("Apply panicked on the reused context: %s\n  in: %s\n%s\n%s", pn, render(seq), c.dump, pn.Stack)
			}
			if a, b := runes(seq), runes(got); a != b {
				t.Fatalf("text not conserved: %q -> %q\n  in:  %s\n  out: %s\n%s", a, b, render(seq), render(got), c.dump)
			}
			fresh, pn := apply(gtab.NewContext(c.ll, c.gd, c.order), seq, c.dump)
			if pn != nil {
				t.Fatalf("Apply panicked on a fresh context: %s\n  in: %s\n%s", pn, render(seq), c.dump)
			}
			if render(got) != render(fresh) {
				t.Fatalf("result depends on earlier calls of the same Context:\n  in:     %s\n  reused: %s\n  fresh:  %s\n%s", render(seq), render(got), render(fresh), c.dump)
			}
			if render(got) != render(seq) {
				fired++
			}
			if len(prefix) == 4 {
				return
			}
			for _, x := range alpha {
				rec(append(prefix[:len(prefix):len(prefix)], x))
			}
		}
		rec(nil)
		mode := "defined"
		if wild {
			mode = "wild"
		}
		stats.LabelN(sub, "applications", 781)
		stats.CaseIn(sub, stats.Hash(c.dump), fired > 0, func() string { return c.dump }, "mode-"+mode, fmt.Sprintf("contexts-%d", nCtx))
	}
}
