// C17: parser.Parser is observationally a random-access byte view.
package c17

import (
	"bytes"
	"errors"
	"fmt"
	"io"
	"strings"
	"testing"

	"pgregory.net/rapid"

	"seehuhn.de/go/sfnt/parser"
	"verif/harness/guard"
	"verif/harness/stats"
)

func TestMain(m *testing.M) { stats.MainExit(m) }

// posByte makes every byte identify its offset (mixes so that 16/32-bit
// values at different offsets differ).
func posByte(i int) byte {
	x := uint32(i)*2654435761 + 12345
	return byte(x>>24) ^ byte(x>>13) ^ byte(i)
}

func makeInput(n int) []byte {
	b := make([]byte, n)
	for i := range b {
		b[i] = posByte(i)
	}
	return b
}

// src is a ReadSeekSizer with configurable read behaviour.
type src struct {
	data     []byte
	pos      int64
	maxRead  int  // 0 = unlimited
	eofEarly bool // return io.EOF together with the last bytes
}

func (s *src) Size() int64 { return int64(len(s.data)) }

func (s *src) Seek(off int64, whence int) (int64, error) {
	var np int64
	switch whence {
	case io.SeekStart:
		np = off
	case io.SeekCurrent:
		np = s.pos + off
	case io.SeekEnd:
		np = int64(len(s.data)) + off
	}
	if np < 0 {
		return 0, errors.New("negative position")
	}
	s.pos = np
	return np, nil
}

func (s *src) Read(p []byte) (int, error) {
	if len(p) == 0 {
		return 0, nil
	}
	if s.pos >= int64(len(s.data)) {
		return 0, io.EOF
	}
	n := len(p)
	if s.maxRead > 0 && n > s.maxRead {
		n = s.maxRead
	}
	n = copy(p[:n], s.data[s.pos:])
	s.pos += int64(n)
	if s.eofEarly && s.pos == int64(len(s.data)) {
		return n, io.EOF
	}
	return n, nil
}

// model is the reference: a slice and a cursor.
type model struct {
	data []byte
	cur  int64
}

// step describes one operation for logs/replays.
type step struct {
	Op string
	A  int
}

func (s step) String() string { return fmt.Sprintf("%s(%d)", s.Op, s.A) }

type runner struct {
	p                         *parser.Parser
	m                         model
	hist                      []step
	crossed, backseek, hitEOF bool
	desync                    bool // after a failed op the cursor is unspecified until resync
}

func newRunner(data []byte, maxRead int, eofEarly bool) *runner {
	s := &src{data: data, maxRead: maxRead, eofEarly: eofEarly}
	return &runner{p: parser.New(s), m: model{data: data}}
}

// afterFail re-synchronises the model cursor after a failed operation: the
// property fixes no cursor there; Pos() must lie in [old cursor, ∞) – we
// accept any position the parser reports that is >= 0 and adopt it.
func (r *runner) afterFail() error {
	r.hitEOF = true
	pos := r.p.Pos()
	if pos < 0 {
		return fmt.Errorf("Pos()=%d after failed operation", pos)
	}
	r.m.cur = pos
	return nil
}

func be(b []byte) uint64 {
	var v uint64
	for _, x := range b {
		v = v<<8 | uint64(x)
	}
	return v
}

// fixed performs a fixed-size read of n bytes through fn and checks it.
func (r *runner) fixed(name string, n int, fn func() (uint64, error)) error {
	start := r.m.cur
	if start/1024 != (start+int64(n)-1)/1024 && n > 0 {
		r.crossed = true
	}
	val, err := fn()
	fits := start+int64(n) <= int64(len(r.m.data))
	if fits {
		if err != nil {
			return fmt.Errorf("%s at %d: unexpected error %v (len %d)", name, start, err, len(r.m.data))
		}
		want := be(r.m.data[start : start+int64(n)])
		if val != want {
			return fmt.Errorf("%s at %d: got %#x want %#x", name, start, val, want)
		}
		r.m.cur = start + int64(n)
		if p := r.p.Pos(); p != r.m.cur {
			return fmt.Errorf("%s at %d: Pos()=%d want %d", name, start, p, r.m.cur)
		}
		return nil
	}
	if err == nil {
		return fmt.Errorf("%s at %d: success (%#x) although only %d bytes remain", name, start, val, int64(len(r.m.data))-start)
	}
	if err != io.ErrUnexpectedEOF {
		return fmt.Errorf("%s at %d: error %v, want io.ErrUnexpectedEOF", name, start, err)
	}
	return r.afterFail()
}

func (r *runner) do(s step) (err error) {
	r.hist = append(r.hist, s)
	if pn := guard.Try(func() { err = r.do1(s) }); pn != nil {
		return fmt.Errorf("%s: %s", s, pn)
	}
	return err
}

func (r *runner) do1(s step) error {
	L := int64(len(r.m.data))
	switch s.Op {
	case "SeekPos":
		if int64(s.A) < r.m.cur {
			r.backseek = true
		}
		if err := r.p.SeekPos(int64(s.A)); err != nil {
			return fmt.Errorf("SeekPos(%d): %v", s.A, err)
		}
		r.m.cur = int64(s.A)
		if p := r.p.Pos(); p != r.m.cur {
			return fmt.Errorf("SeekPos(%d): Pos()=%d", s.A, p)
		}
	case "Discard":
		if err := r.p.Discard(s.A); err != nil {
			return fmt.Errorf("Discard(%d): %v", s.A, err)
		}
		r.m.cur += int64(s.A)
		if p := r.p.Pos(); p != r.m.cur {
			return fmt.Errorf("Discard(%d): Pos()=%d want %d", s.A, p, r.m.cur)
		}
	case "ReadUint8":
		return r.fixed("ReadUint8", 1, func() (uint64, error) { v, e := r.p.ReadUint8(); return uint64(v), e })
	case "ReadUint16":
		return r.fixed("ReadUint16", 2, func() (uint64, error) { v, e := r.p.ReadUint16(); return uint64(v), e })
	case "ReadInt16":
		return r.fixed("ReadInt16", 2, func() (uint64, error) { v, e := r.p.ReadInt16(); return uint64(uint16(v)), e })
	case "ReadUint32":
		return r.fixed("ReadUint32", 4, func() (uint64, error) { v, e := r.p.ReadUint32(); return uint64(v), e })
	case "ReadUint16Slice":
		start := r.m.cur
		res, err := r.p.ReadUint16Slice()
		if start+2 > L {
			if err != io.ErrUnexpectedEOF {
				return fmt.Errorf("ReadUint16Slice at %d: err=%v want ErrUnexpectedEOF", start, err)
			}
			return r.afterFail()
		}
		n := int64(be(r.m.data[start : start+2]))
		if start+2+2*n > L {
			if err != io.ErrUnexpectedEOF {
				return fmt.Errorf("ReadUint16Slice at %d (n=%d): err=%v want ErrUnexpectedEOF", start, n, err)
			}
			if res != nil {
				return fmt.Errorf("ReadUint16Slice at %d: partial data returned with error", start)
			}
			return r.afterFail()
		}
		if err != nil {
			return fmt.Errorf("ReadUint16Slice at %d (n=%d): unexpected %v", start, n, err)
		}
		if int64(len(res)) != n {
			return fmt.Errorf("ReadUint16Slice at %d: len %d want %d", start, len(res), n)
		}
		for i := range res {
			o := start + 2 + 2*int64(i)
			if uint64(res[i]) != be(r.m.data[o:o+2]) {
				return fmt.Errorf("ReadUint16Slice at %d: elem %d = %#x want %#x", start, i, res[i], be(r.m.data[o:o+2]))
			}
		}
		if n > 500 {
			r.crossed = true
		}
		r.m.cur = start + 2 + 2*n
		if p := r.p.Pos(); p != r.m.cur {
			return fmt.Errorf("ReadUint16Slice: Pos()=%d want %d", p, r.m.cur)
		}
	case "ReadBytes":
		start := r.m.cur
		n := int64(s.A)
		if n > 0 && start/1024 != (start+n-1)/1024 {
			r.crossed = true
		}
		res, err := r.p.ReadBytes(s.A)
		if start+n <= L || n == 0 {
			// n == 0 beyond EOF: no byte is needed, must succeed or fail?  The
			// property says a read fails iff it would pass the end; reading 0
			// bytes passes nothing.  Both outcomes leave no data; accept success only.
			if err != nil {
				if n == 0 && start > L {
					// position beyond the end and nothing requested: unspecified
					return r.afterFail()
				}
				return fmt.Errorf("ReadBytes(%d) at %d: unexpected %v (len %d)", n, start, err, L)
			}
			if int64(len(res)) != n {
				return fmt.Errorf("ReadBytes(%d) at %d: got %d bytes", n, start, len(res))
			}
			if n > 0 && !bytes.Equal(res, r.m.data[start:start+n]) {
				return fmt.Errorf("ReadBytes(%d) at %d: wrong content", n, start)
			}
			r.m.cur = start + n
			if p := r.p.Pos(); p != r.m.cur {
				return fmt.Errorf("ReadBytes(%d) at %d: Pos()=%d want %d", n, start, p, r.m.cur)
			}
			return nil
		}
		if err == nil {
			return fmt.Errorf("ReadBytes(%d) at %d: success beyond end (len %d)", n, start, L)
		}
		if err != io.ErrUnexpectedEOF {
			return fmt.Errorf("ReadBytes(%d) at %d: err=%v want ErrUnexpectedEOF", n, start, err)
		}
		if len(res) != 0 {
			return fmt.Errorf("ReadBytes(%d) at %d: data returned with error", n, start)
		}
		return r.afterFail()
	case "Read":
		start := r.m.cur
		n := int64(s.A)
		if n > 0 && start/1024 != (start+n-1)/1024 {
			r.crossed = true
		}
		buf := make([]byte, n)
		for i := range buf {
			buf[i] = 0xA5
		}
		got, err := r.p.Read(buf)
		if start+n <= L || n == 0 {
			if err != nil {
				return fmt.Errorf("Read(%d) at %d: unexpected %v (len %d)", n, start, err, L)
			}
			if int64(got) != n {
				return fmt.Errorf("Read(%d) at %d: n=%d", n, start, got)
			}
			if n > 0 && !bytes.Equal(buf, r.m.data[start:start+n]) {
				return fmt.Errorf("Read(%d) at %d: wrong content", n, start)
			}
			r.m.cur = start + n
			if p := r.p.Pos(); p != r.m.cur {
				return fmt.Errorf("Read(%d) at %d: Pos()=%d want %d", n, start, p, r.m.cur)
			}
			return nil
		}
		if err == nil {
			return fmt.Errorf("Read(%d) at %d: success beyond end (len %d), n=%d", n, start, L, got)
		}
		if err != io.ErrUnexpectedEOF {
			return fmt.Errorf("Read(%d) at %d: err=%v want ErrUnexpectedEOF", n, start, err)
		}
		if int64(got) >= n {
			return fmt.Errorf("Read(%d) at %d: error with full count %d", n, start, got)
		}
		// whatever was delivered before the error must be right
		avail := L - start
		if avail < 0 {
			avail = 0
		}
		if int64(got) > avail {
			return fmt.Errorf("Read(%d) at %d: count %d exceeds the %d available bytes", n, start, got, avail)
		}
		if got > 0 && !bytes.Equal(buf[:got], r.m.data[start:start+int64(got)]) {
			return fmt.Errorf("Read(%d) at %d: wrong partial content", n, start)
		}
		return r.afterFail()
	case "Pos":
		if p := r.p.Pos(); p != r.m.cur {
			return fmt.Errorf("Pos()=%d want %d", p, r.m.cur)
		}
	case "Size":
		if sz := r.p.Size(); sz != L {
			return fmt.Errorf("Size()=%d want %d", sz, L)
		}
	default:
		panic("unknown op " + s.Op)
	}
	return nil
}

func (r *runner) histString() string {
	var sb strings.Builder
	for i, s := range r.hist {
		if i > 0 {
			sb.WriteByte(' ')
		}
		sb.WriteString(s.String())
	}
	return sb.String()
}

var boundaryLens = []int{0, 1, 2, 3, 4, 1023, 1024, 1025, 2047, 2048, 2049, 4999, 5000}

func genLen() *rapid.Generator[int] {
	return rapid.OneOf(rapid.SampledFrom(boundaryLens), rapid.IntRange(0, 5000), rapid.IntRange(0, 40))
}

// genOffset draws an offset biased to window boundaries and the end.
func genOffset(L int) *rapid.Generator[int] {
	return rapid.Custom(func(t *rapid.T) int {
		switch rapid.IntRange(0, 6).Draw(t, "offKind") {
		case 6:
			// offsets are 64-bit: positions whose low 32 bits fall into (or
			// next to) the input, a whole number of 4 GiB further on
			k := rapid.SampledFrom([]int{1, 1, 2, 255, 1 << 20}).Draw(t, "gib4")
			return k<<32 + rapid.IntRange(0, L+1100).Draw(t, "low32")
		case 0:
			return rapid.IntRange(0, L+10).Draw(t, "off")
		case 1:
			k := rapid.IntRange(0, 5).Draw(t, "k")
			d := rapid.IntRange(-5, 5).Draw(t, "d")
			v := 1024*k + d
			if v < 0 {
				v = 0
			}
			return v
		case 2:
			d := rapid.IntRange(-8, 8).Draw(t, "d")
			v := L + d
			if v < 0 {
				v = 0
			}
			return v
		case 3:
			return rapid.IntRange(0, 16).Draw(t, "off")
		case 4:
			return rapid.IntRange(0, 1<<20).Draw(t, "far")
		default:
			return rapid.IntRange(0, L).Draw(t, "off")
		}
	})
}

func genSize() *rapid.Generator[int] {
	return rapid.OneOf(
		rapid.IntRange(0, 8),
		rapid.SampledFrom([]int{0, 1, 2, 1022, 1023, 1024}),
		rapid.IntRange(0, 1024),
	)
}

func genBigSize() *rapid.Generator[int] {
	return rapid.OneOf(
		rapid.IntRange(0, 8),
		rapid.SampledFrom([]int{0, 1, 1023, 1024, 1025, 2047, 2048, 2049, 3000, 5001}),
		rapid.IntRange(0, 6000),
	)
}

func TestC17Model(t *testing.T) {
	rapid.Check(t, func(t *rapid.T) {
		L := genLen().Draw(t, "len")
		data := makeInput(L)
		// make ReadUint16Slice counts small enough to succeed sometimes
		nSmall := rapid.IntRange(0, 8).Draw(t, "nSmall")
		for i := 0; i < nSmall && L >= 2; i++ {
			o := rapid.IntRange(0, L-2).Draw(t, "so")
			data[o] = byte(rapid.IntRange(0, 3).Draw(t, "hi"))
		}
		// and a few counts around the places where 2*n passes a power of
		// two (16-bit arithmetic on the size of the array)
		var planted []int
		for i := rapid.IntRange(0, 3).Draw(t, "nPlanted"); i > 0 && L >= 2; i-- {
			o := rapid.IntRange(0, L-2).Draw(t, "po")
			v := rapid.SampledFrom([]int{0x7FFF, 0x8000, 0x8001, 0x8003, 0x80FF, 0x8100, 0x81FF, 0x8200, 0x8201, 0xFFFF, 0x4000, 0x0200, 0x0201}).Draw(t, "pv")
			data[o], data[o+1] = byte(v>>8), byte(v)
			planted = append(planted, o)
		}
		maxRead := rapid.SampledFrom([]int{0, 0, 1, 2, 3, 7, 100, 1000, 1023}).Draw(t, "maxRead")
		eofEarly := rapid.Bool().Draw(t, "eofEarly")
		r := newRunner(data, maxRead, eofEarly)
		fail := func(err error) {
			if err != nil {
				t.Fatalf("len=%d maxRead=%d eofEarly=%v history: %s\n  %v", L, maxRead, eofEarly, r.histString(), err)
			}
		}
		t.Repeat(map[string]func(*rapid.T){
			"SeekPos":         func(t *rapid.T) { fail(r.do(step{"SeekPos", genOffset(L).Draw(t, "p")})) },
			"Discard":         func(t *rapid.T) { fail(r.do(step{"Discard", genSize().Draw(t, "n")})) },
			"ReadUint8":       func(t *rapid.T) { fail(r.do(step{"ReadUint8", 0})) },
			"ReadUint16":      func(t *rapid.T) { fail(r.do(step{"ReadUint16", 0})) },
			"ReadInt16":       func(t *rapid.T) { fail(r.do(step{"ReadInt16", 0})) },
			"ReadUint32":      func(t *rapid.T) { fail(r.do(step{"ReadUint32", 0})) },
			"ReadUint16Slice": func(t *rapid.T) { fail(r.do(step{"ReadUint16Slice", 0})) },
			"SliceAtPlantedCount": func(t *rapid.T) {
				if len(planted) == 0 {
					t.Skip("no planted count")
				}
				fail(r.do(step{"SeekPos", rapid.SampledFrom(planted).Draw(t, "at")}))
				fail(r.do(step{"ReadUint16Slice", 0}))
			},
			"ReadBytes": func(t *rapid.T) { fail(r.do(step{"ReadBytes", genSize().Draw(t, "n")})) },
			"Read":      func(t *rapid.T) { fail(r.do(step{"Read", genBigSize().Draw(t, "n")})) },
			"Pos":       func(t *rapid.T) { fail(r.do(step{"Pos", 0})) },
			"Size":      func(t *rapid.T) { fail(r.do(step{"Size", 0})) },
			// two short patterns as one action each, so that they occur far
			// more often than three independent draws would make them:
			// a bulk read, a seek back into (or just before) what was read, a read there
			"BulkReadThenBack": func(t *rapid.T) {
				fail(r.do(step{"Read", rapid.SampledFrom([]int{1023, 1024, 1025, 2047, 2048, 2049, 3000}).Draw(t, "bulk")}))
				back := rapid.OneOf(rapid.IntRange(1, 1100), rapid.IntRange(1, 3100)).Draw(t, "back")
				target := int(r.p.Pos()) - back
				if target < 0 {
					target = 0
				}
				fail(r.do(step{"SeekPos", target}))
				switch rapid.IntRange(0, 2).Draw(t, "then") {
				case 0:
					fail(r.do(step{"ReadUint16", 0}))
				case 1:
					fail(r.do(step{"ReadBytes", rapid.IntRange(1, 1024).Draw(t, "n")}))
				default:
					fail(r.do(step{"Read", rapid.IntRange(1, 1500).Draw(t, "n")}))
				}
			},
			// a read that fails at the end of the input, then a shorter one at
			// the same place that fits
			"FailThenShorter": func(t *rapid.T) {
				k := rapid.IntRange(1, 3).Draw(t, "fromEnd")
				if L < k {
					t.Skip("input too short")
				}
				fail(r.do(step{"SeekPos", L - k}))
				fail(r.do(step{"ReadUint32", 0}))
				fail(r.do(step{"SeekPos", L - k}))
				fail(r.do(step{"ReadUint8", 0}))
			},
		})
		nt := r.crossed || r.backseek || r.hitEOF
		var labels []string
		if r.crossed {
			labels = append(labels, "crossed-window")
		}
		if r.backseek {
			labels = append(labels, "backward-seek")
		}
		if r.hitEOF {
			labels = append(labels, "hit-eof")
		}
		if maxRead > 0 {
			labels = append(labels, "short-reads")
		}
		if eofEarly {
			labels = append(labels, "eof-with-data")
		}
		hs := r.histString()
		stats.CaseIn("model", stats.Hash(L, maxRead, eofEarly, hs), nt, func() string {
			return fmt.Sprintf("len=%d maxRead=%d eofEarly=%v: %s", L, maxRead, eofEarly, hs)
		}, labels...)
	})
}

// TestC17Exhaustive enumerates all histories of length <= 3 over
// {SeekPos, ReadBytes, Read, ReadUint32} x boundary offsets/sizes on three
// input lengths.
func TestC17Exhaustive(t *testing.T) {
	lens := []int{1024, 2049, 3000}
	var alphabet []step
	for _, o := range []int{0, 1, 1023, 1024, 1025, 2048, 2996, 3001} {
		alphabet = append(alphabet, step{"SeekPos", o})
	}
	for _, n := range []int{0, 1, 1023, 1024} {
		alphabet = append(alphabet, step{"ReadBytes", n})
	}
	for _, n := range []int{3, 1024, 1025, 2049} {
		alphabet = append(alphabet, step{"Read", n})
	}
	alphabet = append(alphabet, step{"ReadUint32", 0})
	srcs := []struct {
		maxRead  int
		eofEarly bool
	}{{0, false}, {1000, true}, {7, false}}
	maxLen := 3
	count := 0
	for _, L := range lens {
		data := makeInput(L)
		for _, sv := range srcs {
			var rec func(prefix []step)
			rec = func(prefix []step) {
				if len(prefix) > 0 {
					r := newRunner(data, sv.maxRead, sv.eofEarly)
					for _, s := range prefix {
						if err := r.do(s); err != nil {
							t.Fatalf("len=%d maxRead=%d eofEarly=%v history: %s\n  %v", L, sv.maxRead, sv.eofEarly, r.histString(), err)
						}
					}
					count++
					nt := r.crossed || r.backseek || r.hitEOF
					stats.CaseIn("exhaustive", stats.Hash(L, sv.maxRead, sv.eofEarly, r.histString()), nt, func() string {
						return fmt.Sprintf("len=%d maxRead=%d eofEarly=%v: %s", L, sv.maxRead, sv.eofEarly, r.histString())
					})
				}
				if len(prefix) == maxLen {
					return
				}
				for _, s := range alphabet {
					rec(append(prefix[:len(prefix):len(prefix)], s))
				}
			}
			rec(nil)
		}
	}
	stats.Exhaustive("exhaustive")
	t.Logf("%d histories", count)
}
