package c19

import (
	"fmt"
	"sort"
	"strings"

	"seehuhn.de/go/sfnt/glyph"
	"seehuhn.de/go/sfnt/opentype/anchor"
	"seehuhn.de/go/sfnt/opentype/classdef"
	"seehuhn.de/go/sfnt/opentype/coverage"
	"seehuhn.de/go/sfnt/opentype/gtab"
)

// The harness's own canonical notation for lookup lists ("rule sets").  Two
// lookup lists with the same canonical text have the same rules in the same
// order, whatever representation (Gsub1_1 vs Gsub1_2, nil vs zero value
// record, nil vs empty slice, trailing empty rule lists) was chosen.  The
// notation is independent of the textual language under test: it never goes
// through glyph names or the character map.

func normGids(gg []glyph.ID) string {
	var sb strings.Builder
	for i, g := range gg {
		if i > 0 {
			sb.WriteByte(' ')
		}
		fmt.Fprintf(&sb, "%d", g)
	}
	return sb.String()
}

func sortedGids(gg []glyph.ID) []glyph.ID {
	res := append([]glyph.ID(nil), gg...)
	sort.Slice(res, func(i, j int) bool { return res[i] < res[j] })
	return res
}

func covTableKeys(c coverage.Table) []glyph.ID {
	var res []glyph.ID
	for g := range c {
		res = append(res, g)
	}
	return sortedGids(res)
}

func covSetKeys(c coverage.Set) []glyph.ID {
	var res []glyph.ID
	for g, ok := range c {
		if ok {
			res = append(res, g)
		}
	}
	return sortedGids(res)
}

func normClasses(c classdef.Table) string {
	byClass := map[uint16][]glyph.ID{}
	var classes []int
	for g, cls := range c {
		if cls == 0 {
			continue
		}
		if _, ok := byClass[cls]; !ok {
			classes = append(classes, int(cls))
		}
		byClass[cls] = append(byClass[cls], g)
	}
	sort.Ints(classes)
	var parts []string
	for _, cls := range classes {
		parts = append(parts, fmt.Sprintf("%d:[%s]", cls, normGids(sortedGids(byClass[uint16(cls)]))))
	}
	return "{" + strings.Join(parts, " ") + "}"
}

func normU16(cc []uint16) string {
	var parts []string
	for _, c := range cc {
		parts = append(parts, fmt.Sprint(c))
	}
	return strings.Join(parts, " ")
}

func normActions(aa []gtab.SeqLookup) string {
	var parts []string
	for _, a := range aa {
		parts = append(parts, fmt.Sprintf("%d@%d", a.LookupListIndex, a.SequenceIndex))
	}
	return strings.Join(parts, " ")
}

func normSets(ss []coverage.Set) string {
	var parts []string
	for _, s := range ss {
		parts = append(parts, "["+normGids(covSetKeys(s))+"]")
	}
	return strings.Join(parts, " ")
}

func vrIsZero(v *gtab.GposValueRecord) bool {
	return v == nil || *v == gtab.GposValueRecord{}
}

func normVR(v *gtab.GposValueRecord) string {
	if vrIsZero(v) {
		return "_"
	}
	s := fmt.Sprintf("x%d,y%d,dx%d", v.XPlacement, v.YPlacement, v.XAdvance)
	if v.YAdvance != 0 || v.XPlacementDevOffs != 0 || v.YPlacementDevOffs != 0 || v.XAdvanceDevOffs != 0 || v.YAdvanceDevOffs != 0 {
		s += fmt.Sprintf(",dy%d,dev%d/%d/%d/%d", v.YAdvance, v.XPlacementDevOffs, v.YPlacementDevOffs, v.XAdvanceDevOffs, v.YAdvanceDevOffs)
	}
	return s
}

// normPair: a nil second record and a present one differ in meaning (the
// second glyph is consumed or not), so the distinction is kept.
func normPair(p *gtab.PairAdjust) string {
	if p == nil {
		return "<nil>"
	}
	if p.Second == nil {
		return normVR(p.First)
	}
	return normVR(p.First) + "&" + normVR(p.Second)
}

func normAnchor(a anchor.Table) string { return fmt.Sprintf("%d,%d", a.X, a.Y) }

type kv struct {
	k glyph.ID
	v string
}

func joinKV(m []kv) string {
	sort.SliceStable(m, func(i, j int) bool { return m[i].k < m[j].k })
	var parts []string
	for _, e := range m {
		parts = append(parts, fmt.Sprintf("%d>%s", e.k, e.v))
	}
	return strings.Join(parts, ", ")
}

func trimRules(n int, empty func(i int) bool) int {
	for n > 0 && empty(n-1) {
		n--
	}
	return n
}

func normSubtable(st gtab.Subtable) string {
	switch l := st.(type) {
	case *gtab.Gsub1_1:
		var m []kv
		for _, g := range covSetKeys(l.Cov) {
			m = append(m, kv{g, fmt.Sprint(g + l.Delta)})
		}
		return "single{" + joinKV(m) + "}"
	case *gtab.Gsub1_2:
		var m []kv
		for _, g := range covTableKeys(l.Cov) {
			m = append(m, kv{g, fmt.Sprint(l.SubstituteGlyphIDs[l.Cov[g]])})
		}
		return "single{" + joinKV(m) + "}"
	case *gtab.Gsub2_1:
		var m []kv
		for _, g := range covTableKeys(l.Cov) {
			m = append(m, kv{g, normGids(l.Repl[l.Cov[g]])})
		}
		return "multiple{" + joinKV(m) + "}"
	case *gtab.Gsub3_1:
		var m []kv
		for _, g := range covTableKeys(l.Cov) {
			m = append(m, kv{g, "[" + normGids(l.Alternates[l.Cov[g]]) + "]"})
		}
		return "alternate{" + joinKV(m) + "}"
	case *gtab.Gsub4_1:
		var m []kv
		for _, g := range covTableKeys(l.Cov) {
			var parts []string
			for _, lig := range l.Repl[l.Cov[g]] {
				parts = append(parts, fmt.Sprintf("(%s)=%d", normGids(lig.In), lig.Out))
			}
			if len(parts) == 0 {
				continue
			}
			m = append(m, kv{g, strings.Join(parts, "|")})
		}
		return "ligature{" + joinKV(m) + "}"
	case *gtab.SeqContext1:
		var m []kv
		for _, g := range covTableKeys(l.Cov) {
			var parts []string
			for _, r := range l.Rules[l.Cov[g]] {
				parts = append(parts, fmt.Sprintf("(%s)->%s", normGids(r.Input), normActions(r.Actions)))
			}
			if len(parts) == 0 {
				continue
			}
			m = append(m, kv{g, strings.Join(parts, "|")})
		}
		return "ctx1{" + joinKV(m) + "}"
	case *gtab.SeqContext2:
		n := trimRules(len(l.Rules), func(i int) bool { return len(l.Rules[i]) == 0 })
		var rows []string
		for cls := 0; cls < n; cls++ {
			var parts []string
			for _, r := range l.Rules[cls] {
				parts = append(parts, fmt.Sprintf("(%s)->%s", normU16(r.Input), normActions(r.Actions)))
			}
			rows = append(rows, fmt.Sprintf("%d:%s", cls, strings.Join(parts, "|")))
		}
		return fmt.Sprintf("ctx2{cov[%s] in%s rules{%s}}", normGids(covTableKeys(l.Cov)), normClasses(l.Input), strings.Join(rows, "; "))
	case *gtab.SeqContext3:
		return fmt.Sprintf("ctx3{%s -> %s}", normSets(l.Input), normActions(l.Actions))
	case *gtab.ChainedSeqContext1:
		var m []kv
		for _, g := range covTableKeys(l.Cov) {
			var parts []string
			for _, r := range l.Rules[l.Cov[g]] {
				parts = append(parts, fmt.Sprintf("b(%s)i(%s)l(%s)->%s", normGids(r.Backtrack), normGids(r.Input), normGids(r.Lookahead), normActions(r.Actions)))
			}
			if len(parts) == 0 {
				continue
			}
			m = append(m, kv{g, strings.Join(parts, "|")})
		}
		return "cctx1{" + joinKV(m) + "}"
	case *gtab.ChainedSeqContext2:
		n := trimRules(len(l.Rules), func(i int) bool { return len(l.Rules[i]) == 0 })
		var rows []string
		for cls := 0; cls < n; cls++ {
			var parts []string
			for _, r := range l.Rules[cls] {
				parts = append(parts, fmt.Sprintf("b(%s)i(%s)l(%s)->%s", normU16(r.Backtrack), normU16(r.Input), normU16(r.Lookahead), normActions(r.Actions)))
			}
			rows = append(rows, fmt.Sprintf("%d:%s", cls, strings.Join(parts, "|")))
		}
		return fmt.Sprintf("cctx2{cov[%s] back%s in%s look%s rules{%s}}", normGids(covTableKeys(l.Cov)),
			normClasses(l.Backtrack), normClasses(l.Input), normClasses(l.Lookahead), strings.Join(rows, "; "))
	case *gtab.ChainedSeqContext3:
		return fmt.Sprintf("cctx3{b %s | i %s | l %s -> %s}", normSets(l.Backtrack), normSets(l.Input), normSets(l.Lookahead), normActions(l.Actions))
	case *gtab.Gpos1_1:
		return fmt.Sprintf("pos1all{[%s] -> %s}", normGids(covTableKeys(l.Cov)), normVR(l.Adjust))
	case *gtab.Gpos1_2:
		var m []kv
		for _, g := range covTableKeys(l.Cov) {
			m = append(m, kv{g, normVR(l.Adjust[l.Cov[g]])})
		}
		return "pos1{" + joinKV(m) + "}"
	case gtab.Gpos2_1:
		type pe struct {
			p glyph.Pair
			v string
		}
		var pp []pe
		for p, adj := range l {
			pp = append(pp, pe{p, normPair(adj)})
		}
		sort.Slice(pp, func(i, j int) bool {
			if pp[i].p.Left != pp[j].p.Left {
				return pp[i].p.Left < pp[j].p.Left
			}
			return pp[i].p.Right < pp[j].p.Right
		})
		var parts []string
		for _, e := range pp {
			parts = append(parts, fmt.Sprintf("%d %d>%s", e.p.Left, e.p.Right, e.v))
		}
		return "pair1{" + strings.Join(parts, ", ") + "}"
	case *gtab.Gpos2_2:
		var rows []string
		for _, row := range l.Adjust {
			var parts []string
			for _, a := range row {
				parts = append(parts, normPair(a))
			}
			rows = append(rows, strings.Join(parts, ", "))
		}
		return fmt.Sprintf("pair2{cov[%s] c1%s c2%s adj{%s}}", normGids(covSetKeys(l.Cov)), normClasses(l.Class1), normClasses(l.Class2), strings.Join(rows, "; "))
	case *gtab.Gpos3_1:
		var m []kv
		for _, g := range covTableKeys(l.Cov) {
			r := l.Records[l.Cov[g]]
			m = append(m, kv{g, normAnchor(r.Entry) + " to " + normAnchor(r.Exit)})
		}
		return "cursive{" + joinKV(m) + "}"
	case *gtab.Gpos4_1:
		var mm, bb []kv
		for _, g := range covTableKeys(l.MarkCov) {
			r := l.MarkArray[l.MarkCov[g]]
			mm = append(mm, kv{g, fmt.Sprintf("%d@%s", r.Class, normAnchor(r.Table))})
		}
		for _, g := range covTableKeys(l.BaseCov) {
			var parts []string
			for _, a := range l.BaseArray[l.BaseCov[g]] {
				parts = append(parts, "@"+normAnchor(a))
			}
			bb = append(bb, kv{g, strings.Join(parts, " ")})
		}
		return "markbase{marks{" + joinKV(mm) + "} bases{" + joinKV(bb) + "}}"
	}
	return fmt.Sprintf("?%T", st)
}

func normLookup(l *gtab.LookupTable) string {
	var parts []string
	for _, st := range l.Subtables {
		parts = append(parts, normSubtable(st))
	}
	mfs := ""
	if l.Meta.MarkFilteringSet != 0 {
		mfs = fmt.Sprintf(" mfs=%d", l.Meta.MarkFilteringSet)
	}
	return fmt.Sprintf("type=%d flags=%#x%s: %s", l.Meta.LookupType, uint16(l.Meta.LookupFlags), mfs, strings.Join(parts, " || "))
}

func normList(ll gtab.LookupList) string {
	var sb strings.Builder
	for i, l := range ll {
		fmt.Fprintf(&sb, "%d. %s\n", i, normLookup(l))
	}
	return sb.String()
}

// isGposLookup tells the two lookup numbering schemes apart by the Go type
// of the subtables (the parser only builds contextual subtables for GSUB).
func isGposLookup(l *gtab.LookupTable) bool {
	for _, st := range l.Subtables {
		switch st.(type) {
		case *gtab.Gpos1_1, *gtab.Gpos1_2, gtab.Gpos2_1, *gtab.Gpos2_2, *gtab.Gpos3_1, *gtab.Gpos4_1:
			return true
		}
	}
	return false
}
