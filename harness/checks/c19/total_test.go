package c19

import (
	"fmt"
	"regexp"
	"runtime"
	"strconv"
	"strings"
	"testing"
	"unicode"
	"unicode/utf8"

	"pgregory.net/rapid"

	"seehuhn.de/go/sfnt"
	"seehuhn.de/go/sfnt/glyph"
	"seehuhn.de/go/sfnt/opentype/gtab"

	"verif/harness/stats"
)

// ------------------------------------------------------------ clause (b)

var procSettings = []int{1, 2, 4, 16}

var errLineRe = regexp.MustCompile(`^([0-9]+):`)

// checkErrorLine: the error text starts with "<line>:", 1 <= line <= lines+1.
func checkErrorLine(text string, err error) error {
	m := errLineRe.FindStringSubmatch(err.Error())
	if m == nil {
		return fmt.Errorf("error carries no line number: %q", err.Error())
	}
	line, _ := strconv.Atoi(m[1])
	lines := strings.Count(text, "\n") + 1
	if line < 1 || line > lines+1 {
		return fmt.Errorf("error names line %d, the input has %d line(s): %q", line, lines, err.Error())
	}
	return nil
}

type totalResult struct {
	ll  gtab.LookupList
	err error
}

// checkTotal runs Parse on arbitrary text under every GOMAXPROCS setting:
// it must return (watchdog) without an escaping panic, with lookups or an
// error that names a line, leave no goroutine behind, and give the same
// answer under every setting.
func checkTotal(fs *fontSpec, f *sfnt.Font, text string, procs []int) (*totalResult, error) {
	old := runtime.GOMAXPROCS(0)
	defer runtime.GOMAXPROCS(old)
	var first *totalResult
	var firstKey string
	for _, n := range procs {
		runtime.GOMAXPROCS(n)
		base := runtime.NumGoroutine()
		ll, err, pn := watchedParse("total", fs, f, text)
		if pn != nil {
			return nil, fmt.Errorf("GOMAXPROCS=%d: a panic escapes from Parse: %s\n%s", n, pn, pn.Stack)
		}
		if err != nil {
			if e := checkErrorLine(text, err); e != nil {
				return nil, fmt.Errorf("GOMAXPROCS=%d: %v", n, e)
			}
		}
		if e := waitGoroutines(base); e != nil {
			return nil, fmt.Errorf("GOMAXPROCS=%d: result (%d lookups, err=%v): %v", n, len(ll), err, e)
		}
		key := normList(ll)
		if err != nil {
			key = "error: " + err.Error()
		}
		if first == nil {
			first, firstKey = &totalResult{ll, err}, key
		} else if key != firstKey {
			return nil, fmt.Errorf("result depends on the schedule: GOMAXPROCS=%d gives\n%s\nGOMAXPROCS=%d gives\n%s", procs[0], firstKey, n, key)
		}
	}
	return first, nil
}

// ------------------------------------------------------------ tokens

type token struct {
	kind string // ws nl comment string word number punct
	text string
	off  int
}

func isWordRune(c rune) bool {
	return unicode.IsLetter(c) || unicode.IsDigit(c) || c == '.' || c == '_'
}

// tokenize splits a description into tokens (the harness's own scanner;
// it never fails and the tokens concatenate to the input).
func tokenize(s string) []token {
	var res []token
	i := 0
	for i < len(s) {
		start := i
		c, w := utf8.DecodeRuneInString(s[i:])
		kind := "punct"
		switch {
		case c == '\n':
			i += w
			kind = "nl"
		case unicode.IsSpace(c):
			for i < len(s) {
				c, w := utf8.DecodeRuneInString(s[i:])
				if c == '\n' || !unicode.IsSpace(c) {
					break
				}
				i += w
			}
			kind = "ws"
		case c == '#':
			for i < len(s) && s[i] != '\n' {
				i++
			}
			kind = "comment"
		case c == '"':
			i += w
			for i < len(s) && s[i] != '\n' {
				if s[i] == '\\' && i+1 < len(s) && s[i+1] != '\n' {
					i += 2
					continue
				}
				if s[i] == '"' {
					i++
					break
				}
				i++
			}
			kind = "string"
		case (c == '-' || c == '+') && i+1 < len(s) && s[i+1] >= '0' && s[i+1] <= '9', c >= '0' && c <= '9':
			i += w
			for i < len(s) && s[i] >= '0' && s[i] <= '9' {
				i++
			}
			kind = "number"
		case isWordRune(c):
			for i < len(s) {
				c, w := utf8.DecodeRuneInString(s[i:])
				if !isWordRune(c) {
					break
				}
				i += w
			}
			kind = "word"
		case strings.HasPrefix(s[i:], "->"), strings.HasPrefix(s[i:], "||"):
			i += 2
		default:
			i += w
		}
		res = append(res, token{kind, s[start:i], start})
	}
	return res
}

func joinTokens(tt []token) string {
	var sb strings.Builder
	for _, t := range tt {
		sb.WriteString(t.text)
	}
	return sb.String()
}

// a pool of tokens of every kind, valid and invalid
var tokenPool = []string{
	"GSUB1:", "GSUB2:", "GSUB3:", "GSUB4:", "GSUB5:", "GSUB6:", "GPOS1:", "GPOS2:", "GPOS3:", "GPOS4:", "GSUB7:", "GPOS9", "GSUB",
	"A", "B", "C", "x", "1", "2", "3", "0", "+4", "65535", "65536", "99999999999999999999", "-1", "-40000", "32768",
	"->", "||", "|", "[", "]", "/", ":", "::", ",", ";", "@", "&", "=", "-", ">", "- >",
	"-marks", "-ligs", "-base", "-lig", "-rtl", "-", "marks",
	"class", "inputclass", "backtrackclass", "lookaheadclass", ":c1:", ":alpha:", "first", "second", "mark", "base", "to", "_",
	"x+1", "y-2", "dx+3", "dy+1", "x", "1@0", "2@1", "@", "7@", "0@100,100", "@5,5", "1,1",
	`"AB"`, `"A"`, `"ABA"`, `"A`, `"`, `"\`, `"\"`, `"\n"`, `"é"`, `"Ω"`, `"AΩB"`, `"ΩAB"`, `"ABΩ"`, `"\x41"`, `""`,
	"\n", "\n", "\n\t", " ", "# comment", "#", "\x00", "$", "%", "{", "}", "'", "\xff", "\xc3", "\u00a0", "\u2028", "é", "Ω",
}

// complete statements (valid for the fixed fonts unless marked), so that
// token soup often gets past one or more whole lookups before it fails
var phrasePool = []string{
	"GSUB1: A -> B", "GSUB1: -marks A - C -> D - F, 7 -> 8", "GSUB2: A -> \"AB\", 3 -> 4 5", "GSUB3: A -> [B C \"D\"]",
	"GSUB4: -ligs \"AB\" -> C, A B C -> D", "GSUB5: A B -> 0@0 1@1, \"AC\" -> ", "GSUB5: [A B] [C] -> 0@1",
	"GSUB5: class :u: = [A - C]\n class :v: [D]\n /A D/ :u: :v: -> 1@0, :: :u: -> ",
	"GSUB6: A | B C | D -> 0@0", "GSUB6: | [A] | [B C] -> 0@0", "GSUB6: inputclass :i: = [A]\n backtrackclass :b: = [B]\n /A/ :b: | :i: :: | -> 0@0",
	"GPOS1: A -> x+1 y-1, B -> _ ||\n [C D] -> dx-5", "GPOS2: A B -> dx-10 & x+1, \"CD\" -> _",
	"GPOS2: /A B/\n first A, B;\n second C;\n _, x+1;\n _, _;\n y-1 & dx+3, _;", "GPOS3: A: 1,2 to 3,4; B: -1,-2 to 0,0",
	"GPOS4: mark M: 0@1,2;\n mark N: 1@3,4;\n base A: @5,6 @7,8;",
	// invalid ones
	"GSUB2: A -> \"A\u03a9BCD\"", "GSUB4: \"\u03a9\u03a9\u03a9\" -> A", "GSUB1: A -> \"B", "GSUB1: A B -> C", "GPOS4: mark B: 1@0,0", "GSUB5: /A/ :nope: -> ",
	"GSUB3: A -> [\"B\u03a9CD\"", "GPOS2: \"A\u03a9\" -> _", "GSUB1: 1-3 -> 4-6",
}

type mutation struct {
	kind string
	off  int // byte offset in the original text
	tok  token
}

// mutate applies one token-level mutation.
func mutate(t *rapid.T, text string) (string, mutation) {
	tt := tokenize(text)
	var idx []int // non-blank tokens
	var strs []int
	var nums []int
	for i, tok := range tt {
		if tok.kind != "ws" && tok.kind != "nl" && tok.kind != "comment" {
			idx = append(idx, i)
		}
		if tok.kind == "string" {
			strs = append(strs, i)
		}
		if tok.kind == "number" {
			nums = append(nums, i)
		}
	}
	if len(idx) == 0 {
		return text + `"`, mutation{kind: "unterminated-string", off: len(text)}
	}
	kinds := []string{"delete", "duplicate", "swap", "replace", "insert", "unterminated-string", "unmapped-rune", "unmapped-rune",
		"stray-char", "nul", "truncate", "big-number"}
	kind := rapid.SampledFrom(kinds).Draw(t, "mutation")
	pick := func(from []int) int { return rapid.SampledFrom(from).Draw(t, "mutIdx") }
	splice := func(i int, repl ...token) string {
		res := append(append(append([]token(nil), tt[:i]...), repl...), tt[i+1:]...)
		return joinTokens(res)
	}
	switch kind {
	case "delete":
		i := pick(idx)
		return splice(i), mutation{kind, tt[i].off, tt[i]}
	case "duplicate":
		i := pick(idx)
		return splice(i, tt[i], token{text: " "}, tt[i]), mutation{kind, tt[i].off, tt[i]}
	case "swap":
		if len(idx) < 2 {
			break
		}
		k := rapid.IntRange(0, len(idx)-2).Draw(t, "swapIdx")
		i, j := idx[k], idx[k+1]
		res := append([]token(nil), tt...)
		res[i], res[j] = res[j], res[i]
		return joinTokens(res), mutation{kind, tt[i].off, tt[i]}
	case "replace":
		i := pick(idx)
		repl := rapid.SampledFrom(tokenPool).Draw(t, "poolToken")
		return splice(i, token{text: repl}), mutation{kind, tt[i].off, tt[i]}
	case "insert":
		i := pick(idx)
		repl := rapid.SampledFrom(tokenPool).Draw(t, "poolToken")
		return splice(i, token{text: repl}, token{text: " "}, tt[i]), mutation{kind, tt[i].off, tt[i]}
	case "unterminated-string":
		if len(strs) > 0 && rapid.Bool().Draw(t, "cutString") {
			i := pick(strs)
			s := tt[i].text
			if len(s) < 2 {
				return splice(i, token{text: `"x`}), mutation{kind, tt[i].off, tt[i]}
			}
			cut := rapid.IntRange(1, len(s)-1).Draw(t, "cutAt")
			for cut > 1 && !utf8.RuneStart(s[cut]) {
				cut--
			}
			return splice(i, token{text: s[:cut]}), mutation{kind, tt[i].off, tt[i]}
		}
		i := pick(idx)
		return splice(i, token{text: `"`}, tt[i]), mutation{kind, tt[i].off, tt[i]}
	case "unmapped-rune":
		// a rune no font of the harness maps, at the start, in the middle
		// or at the end of a string
		if len(strs) > 0 {
			i := pick(strs)
			s := tt[i].text
			if len(s) >= 2 && strings.HasSuffix(s, `"`) {
				inner := []rune(s[1 : len(s)-1])
				pos := rapid.IntRange(0, len(inner)).Draw(t, "runePos")
				if pos > 0 && inner[pos-1] == '\\' {
					pos--
				}
				bad := rapid.SampledFrom([]rune{'Ω', 'Q', 0x10FFFF, 0xFFFD}).Draw(t, "badRune")
				// the rest of the string may be long: whatever consumes the
				// string must stop cleanly however much of it is left
				pad := strings.Repeat("A", rapid.SampledFrom([]int{0, 0, 0, 3, 31, 33, 70, 200, 1500}).Draw(t, "padAfterBad"))
				ns := `"` + string(inner[:pos]) + string(bad) + pad + string(inner[pos:]) + `"`
				return splice(i, token{text: ns}), mutation{kind, tt[i].off, tt[i]}
			}
		}
		i := pick(idx)
		repl := rapid.SampledFrom([]string{`"ΩAB"`, `"AΩB"`, `"Ω"`, `"ABΩ"`, `"ΩΩΩΩ"`, `"Ω` + strings.Repeat("AB", 40) + `"`, `"AΩ` + strings.Repeat("B", 700) + `"`}).Draw(t, "badString")
		return splice(i, token{text: repl}), mutation{kind, tt[i].off, tt[i]}
	case "stray-char", "nul":
		off := rapid.IntRange(0, len(text)).Draw(t, "offset")
		for off < len(text) && !utf8.RuneStart(text[off]) {
			off++
		}
		c := "\x00"
		if kind == "stray-char" {
			c = rapid.SampledFrom([]string{"$", "%", "{", "'", "\xff", "`", "~", "\\", "\r", "\u0085", "!"}).Draw(t, "stray")
		}
		return text[:off] + c + text[off:], mutation{kind: kind, off: off}
	case "truncate":
		off := rapid.IntRange(0, len(text)).Draw(t, "offset")
		return text[:off], mutation{kind: kind, off: off}
	case "big-number":
		if len(nums) == 0 {
			break
		}
		i := pick(nums)
		repl := rapid.SampledFrom([]string{"65536", "65535", "32768", "-32769", "99999999999999999999", "-99999999999999999999", "0000000000000000000001"}).Draw(t, "bigNumber")
		return splice(i, token{text: repl}), mutation{kind, tt[i].off, tt[i]}
	}
	i := pick(idx)
	return splice(i), mutation{"delete", tt[i].off, tt[i]}
}

var headerRe = regexp.MustCompile(`G(SUB|POS)[0-9]`)

// mutationNontrivial: the mutation sits behind at least one complete lookup,
// or inside a string or a class definition.
func mutationNontrivial(text string, m mutation) bool {
	if m.kind == "unterminated-string" || m.kind == "unmapped-rune" || m.tok.kind == "string" {
		return true
	}
	off := m.off
	if off > len(text) {
		off = len(text)
	}
	before := text[:off]
	if len(headerRe.FindAllStringIndex(before, -1)) >= 2 {
		return true
	}
	lineStart := strings.LastIndexByte(before, '\n') + 1
	lineEnd := len(text)
	if k := strings.IndexByte(text[off:], '\n'); k >= 0 {
		lineEnd = off + k
	}
	return strings.Contains(text[lineStart:lineEnd], "class")
}

// fixed fonts for raw input (one per kind)
var fixedFonts = func() []*fontSpec {
	letters := func(fs *fontSpec) {
		for i := 1; i <= 26 && i < fs.N; i++ {
			fs.Runes[rune('A'+i-1)] = glyph.ID(i)
		}
		fs.Runes['é'] = 27
		fs.Runes[' '] = 28
		fs.Runes['"'] = 29
		fs.Runes[0xa0] = 28
	}
	a := &fontSpec{Kind: "names+cmap", N: 32, Runes: map[rune]glyph.ID{}}
	letters(a)
	a.Names = make([]string, a.N)
	a.Names[0] = ".notdef"
	for i := 1; i <= 26; i++ {
		a.Names[i] = string(rune('A' + i - 1))
	}
	a.Names[27], a.Names[28], a.Names[29], a.Names[30], a.Names[31] = "eacute", "space", "quotedbl", "x", "A.sc"
	b := &fontSpec{Kind: "cmap", N: 32, Runes: map[rune]glyph.ID{}}
	letters(b)
	c := &fontSpec{Kind: "bare", N: 32, Runes: map[rune]glyph.ID{}}
	d := &fontSpec{Kind: "mixed", N: 32, Runes: map[rune]glyph.ID{}}
	letters(d)
	for r := 'N'; r <= 'Z'; r++ {
		delete(d.Runes, r)
	}
	d.Names = make([]string, d.N)
	d.Names[0] = ".notdef"
	for i := 1; i <= 26; i += 2 {
		d.Names[i] = string(rune('A' + i - 1))
	}
	return []*fontSpec{a, b, c, d}
}()

func outcomeLabels(res *totalResult) []string {
	if res.err != nil {
		msg := res.err.Error()
		switch {
		case strings.Contains(msg, "not in mapped"):
			return []string{"outcome:error", "error:unmapped-rune"}
		case strings.Contains(msg, "unterminated string"):
			return []string{"outcome:error", "error:unterminated-string"}
		case strings.Contains(msg, "unexpected character"):
			return []string{"outcome:error", "error:bad-character"}
		case strings.Contains(msg, "EOF"):
			return []string{"outcome:error", "error:at-EOF"}
		}
		return []string{"outcome:error", "error:syntax"}
	}
	if len(res.ll) == 0 {
		return []string{"outcome:no-lookups"}
	}
	return []string{"outcome:lookups"}
}

// TestC19TotalMutants: single-token mutations of valid descriptions.
func TestC19TotalMutants(t *testing.T) {
	rapid.Check(t, func(t *rapid.T) {
		fs := genFont(t, "")
		gpos := rapid.Bool().Draw(t, "gpos")
		lc := genLookups(t, fs, gpos, 0)
		f := fs.build()
		valid, _ := render(t, fs, gpos, lc.ll)
		if rapid.IntRange(0, 3).Draw(t, "fromExplain") == 0 {
			// also start from the library's own writer (if it gets that far)
			if text, pn := explain(f, gpos, lc.ll); pn == nil {
				valid = text
			}
		}
		text := valid
		var muts []mutation
		nMut := rapid.SampledFrom([]int{1, 1, 1, 2, 3}).Draw(t, "nMutations")
		for i := 0; i < nMut; i++ {
			var m mutation
			text, m = mutate(t, text)
			muts = append(muts, m)
		}
		describe := func() string {
			var kinds []string
			for _, m := range muts {
				kinds = append(kinds, fmt.Sprintf("%s@%d(%q)", m.kind, m.off, m.tok.text))
			}
			return fmt.Sprintf("%s\nmutations: %s\ninput: %q\n", fs, strings.Join(kinds, " "), text)
		}
		res, err := checkTotal(fs, f, text, procSettings)
		if err != nil {
			t.Fatalf("%v\n%s", err, describe())
		}
		labels := append([]string{"font:" + fs.Kind}, outcomeLabels(res)...)
		for _, m := range muts {
			labels = append(labels, "mutation:"+m.kind)
		}
		if res.err == nil {
			if err := reExplain(fs, f, res.ll); err != nil {
				t.Fatalf("%v\n%s", err, describe())
			}
		}
		nt := res.err != nil && mutationNontrivial(valid, muts[0])
		stats.CaseIn("total-mutants", stats.Hash(fs.String(), text), nt, describe, labels...)
	})
}

// TestC19TotalRaw: token soup and raw byte strings (NUL, invalid UTF-8).
func TestC19TotalRaw(t *testing.T) {
	rapid.Check(t, func(t *rapid.T) {
		fs := rapid.SampledFrom(fixedFonts).Draw(t, "font")
		f := fs.build()
		var text string
		kind := rapid.SampledFrom([]string{"soup", "soup", "soup", "bytes", "runes"}).Draw(t, "inputKind")
		switch kind {
		case "soup":
			n := rapid.IntRange(0, 30).Draw(t, "nTokens")
			var sb strings.Builder
			phrases := rapid.Bool().Draw(t, "phrases")
			for i := 0; i < n; i++ {
				if phrases && rapid.IntRange(0, 2).Draw(t, "phrase") != 0 {
					sb.WriteString(rapid.SampledFrom(phrasePool).Draw(t, "phraseText"))
					sb.WriteString(rapid.SampledFrom([]string{"\n", "\n", "\n", " ; ", " "}).Draw(t, "phraseEnd"))
					continue
				}
				sb.WriteString(rapid.SampledFrom(tokenPool).Draw(t, "tok"))
				if rapid.IntRange(0, 4).Draw(t, "glue") != 0 {
					sb.WriteByte(' ')
				}
			}
			text = sb.String()
		case "bytes":
			text = string(rapid.SliceOfN(rapid.Byte(), 0, 60).Draw(t, "bytes"))
		default:
			text = string(rapid.SliceOfN(rapid.SampledFrom([]rune("GSUBPO123456:-> |[]/,;@&=_\"\\#\n\t ABCxydé\x00Ω")), 0, 80).Draw(t, "runes"))
		}
		describe := func() string { return fmt.Sprintf("%s\ninput: %q\n", fs, text) }
		res, err := checkTotal(fs, f, text, procSettings)
		if err != nil {
			t.Fatalf("%v\n%s", err, describe())
		}
		labels := append([]string{"font:" + fs.Kind, "input:" + kind}, outcomeLabels(res)...)
		if strings.Contains(text, "\x00") {
			labels = append(labels, "input:has-NUL")
		}
		if !utf8.ValidString(text) {
			labels = append(labels, "input:invalid-utf8")
		}
		nt := false
		if res.err == nil {
			if err := reExplain(fs, f, res.ll); err != nil {
				t.Fatalf("%v\n%s", err, describe())
			}
			nt = len(res.ll) > 0
		} else {
			m := errLineRe.FindStringSubmatch(res.err.Error())
			line, _ := strconv.Atoi(m[1])
			complete := len(headerRe.FindAllStringIndex(text, -1)) >= 2 && line >= 1
			nt = complete || strings.Contains(res.err.Error(), "string") || strings.Contains(res.err.Error(), "rune")
		}
		stats.CaseIn("total-raw", stats.Hash(fs.Kind, text), nt, describe, labels...)
	})
}

// TestC19NoCmap: a font without a usable character map is refused before
// the text is looked at; that error is about the font, not about a line,
// but it must not panic or leave goroutines behind either.
func TestC19NoCmap(t *testing.T) {
	for _, fs := range fixedFonts {
		f := fs.build()
		f.CMapTable = nil
		base := runtime.NumGoroutine()
		ll, err, pn := watchedParse("nocmap", fs, f, "GSUB1: 1 -> 2\n")
		if pn != nil {
			t.Fatalf("font %s without cmap table: %s", fs.Kind, pn)
		}
		if err == nil {
			// accepting the text is fine as well, as long as it is read correctly
			if normList(ll) != "0. type=1 flags=0x0: single{1>2}\n" {
				t.Fatalf("font %s without cmap table: got %s", fs.Kind, normList(ll))
			}
		}
		if e := waitGoroutines(base); e != nil {
			t.Fatal(e)
		}
		stats.CaseIn("no-cmap", stats.Hash(fs.Kind), true, func() string { return fs.Kind + ": " + fmt.Sprint(err) }, "font:"+fs.Kind)
	}
	stats.Exhaustive("no-cmap")
}

// FuzzC19Parse: coverage-guided search over raw text with the oracle of
// clause (b) plus the re-description round trip for accepted inputs.
func FuzzC19Parse(f *testing.F) {
	for i, s := range fuzzSeeds {
		f.Add(uint8(i), s)
	}
	fonts := make([]*sfnt.Font, len(fixedFonts))
	for i, fs := range fixedFonts {
		fonts[i] = fs.build()
	}
	f.Fuzz(func(t *testing.T, fontIdx uint8, text string) {
		if len(text) > 2000 {
			t.Skip()
		}
		k := int(fontIdx) % len(fixedFonts)
		fs, fnt := fixedFonts[k], fonts[k]
		res, err := checkTotal(fs, fnt, text, []int{1, 4})
		if err != nil {
			t.Fatalf("%v\n%s\ninput: %q", err, fs, text)
		}
		if res.err == nil {
			if err := reExplain(fs, fnt, res.ll); err != nil {
				t.Fatalf("%v\n%s\ninput: %q", err, fs, text)
			}
		}
	})
}

var fuzzSeeds = []string{
	"GSUB1: A->B, M->N\nGSUB1: A-C -> B-D, M->N, N->O\nGSUB2: A -> \"AA\", B -> \"AA\", C -> \"ABAAC\"\nGSUB3: A -> [ \"BCD\" ]\nGSUB4: -marks A A A -> B, A -> D, A A -> C\n",
	"GSUB5:\n\t\"AAA\" -> 1@0 2@1 1@0, \"AAB\" -> 1@0 1@1 2@0 ||\n\tclass :alpha: = [A-K]\n\tclass :digits: = [L-Z]\n\t/A B C/ :alpha: :digits: -> 2@1, :alpha: :: :digits: -> 2@2 ||\n\t[A B C] [A C] [A D] -> 3@0\n",
	"GSUB6:\n\tA B | C D | E F -> 1@0 2@1, B | C D E | F -> 1@2 ||\n\tinputclass :ABC: = [\"ABC\"]\n\tbacktrackclass :DEF: = [\"DEF\"]\n\tlookaheadclass :DEF: = [\"DEF\"]\n\t/A B C/ :DEF: :: | :ABC: | :: :DEF: -> 1@0 ||\n\t[A] [A B C] | [A B] [A C] [B C] | [A B C] [A B C] -> 1@0 1@1 1@2\n",
	"GPOS1: [A-C] -> y+10 ||\n\tD -> dx-1, E -> dx+1, F -> dx-1, G -> dx+1, H -> x+1, I -> y+1\nGPOS2: A V -> dx-100, O O -> dx+100, \"AW\" -> dx-100\nGPOS2: T E -> y+100 dx-50 & y-100\n",
	"GPOS2:\n\t/A L V W/\n\tfirst V W, A L;\n\tsecond E O, V W;\n\t_, _, _,\n\t_, dx-50 & y-10, dx+10,\n\t_, dx-10 & y+10, dx-30\nGPOS3:\n  A: 1,1 to 2,2; B: 1,0 to 0,1; C: -1,-1 to 100,100 ||\n  M: 1,1 to 2,2; N: 1,1 to 2,2\n",
	"GPOS4:\n  mark M: 0@100,100;\n  mark N: 1@200,100;\n  base A: @400,1000 @500,1000;\n  base B: @500,1000 @600,900;\n  base C: @500,1000 @500,-1000;\n",
	"GSUB1: 1 - 3 -> 4 - 6, 7 -> 8\nGSUB4: -marks -ligs -base 1 2 -> 3\n",
	"GSUB2: A -> \"A\u03a9BCD\"\n",
	"GSUB1: A ->",
	"GSUB1: \"A",
	"GSUB1: A -> B\n$",
}
