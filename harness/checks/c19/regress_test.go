package c19

import (
	"runtime"
	"strings"
	"testing"

	"seehuhn.de/go/sfnt/glyph"
	"seehuhn.de/go/sfnt/opentype/anchor"
	"seehuhn.de/go/sfnt/opentype/classdef"
	"seehuhn.de/go/sfnt/opentype/gtab"
	"seehuhn.de/go/sfnt/opentype/markarray"

	"verif/harness/stats"
)

func meta(typ uint16, flags gtab.LookupFlags) *gtab.LookupMetaInfo {
	return &gtab.LookupMetaInfo{LookupType: typ, LookupFlags: flags}
}

func regressRoundTrip(t *testing.T, name string, fs *fontSpec, gpos bool, ll gtab.LookupList) {
	t.Helper()
	f := fs.build()
	_, text, err := roundTrip(fs, f, gpos, ll)
	if err != nil {
		t.Fatalf("%v\n%s\nlookups:\n%sdescription:\n%s", err, fs, normList(ll), text)
	}
	stats.CaseIn("regress", stats.Hash(name), true, func() string { return name + ": " + text }, name)
}

// Explain wrote "-lig" for the ignore-ligatures flag, Parse reads "-ligs"
// (the spelling all descriptions in the repository use).
func TestC19RegressLigFlag(t *testing.T) {
	ll := gtab.LookupList{{
		Meta:      meta(4, gtab.IgnoreLigatures),
		Subtables: []gtab.Subtable{&gtab.Gsub4_1{Cov: covOf([]glyph.ID{1}), Repl: [][]gtab.Ligature{{{In: []glyph.ID{2}, Out: 3}}}}},
	}}
	regressRoundTrip(t, "lig-flag", fixedFonts[0], false, ll)
}

// Class definitions directly after lookup flags were fused with the flag
// word ("-marksclass :c1: ...").
func TestC19RegressClassAfterFlags(t *testing.T) {
	ll := gtab.LookupList{
		{
			Meta: meta(5, gtab.IgnoreMarks),
			Subtables: []gtab.Subtable{&gtab.SeqContext2{
				Cov: covOf([]glyph.ID{1}), Input: classdef.Table{1: 1},
				Rules: [][]*gtab.ClassSeqRule{nil, {{Input: []uint16{0}, Actions: []gtab.SeqLookup{{SequenceIndex: 0, LookupListIndex: 2}}}}},
			}},
		},
		{
			Meta: meta(6, gtab.IgnoreBaseGlyphs),
			Subtables: []gtab.Subtable{&gtab.ChainedSeqContext2{
				Cov: covOf([]glyph.ID{1}), Backtrack: classdef.Table{2: 1}, Input: classdef.Table{1: 1}, Lookahead: classdef.Table{},
				Rules: [][]*gtab.ChainedClassSeqRule{nil, {{Backtrack: []uint16{1}, Actions: []gtab.SeqLookup{{SequenceIndex: 0, LookupListIndex: 2}}}}},
			}},
		},
		{Meta: meta(1, 0), Subtables: []gtab.Subtable{&gtab.Gsub1_2{Cov: covOf([]glyph.ID{1}), SubstituteGlyphIDs: []glyph.ID{5}}}},
	}
	regressRoundTrip(t, "class-after-flags", fixedFonts[0], false, ll)
}

// Glyphs reached through a code point that %q writes as an escape sequence
// (no-break space, soft hyphen, control characters) were written as
// " ", which Parse reads as the five runes u 0 0 a 0.
func TestC19RegressQuotedEscapes(t *testing.T) {
	// fixedFonts: glyph 28 is mapped from U+0020 and from U+00A0
	ll := gtab.LookupList{{
		Meta:      meta(2, 0),
		Subtables: []gtab.Subtable{&gtab.Gsub2_1{Cov: covOf([]glyph.ID{1}), Repl: [][]glyph.ID{{1, 28, 2}}}},
	}}
	regressRoundTrip(t, "quoted-escapes/cmap-only", fixedFonts[1], false, ll)
	regressRoundTrip(t, "quoted-escapes/names", fixedFonts[0], false, ll)
	bell := &fontSpec{Kind: "cmap", N: 4, Runes: map[rune]glyph.ID{'A': 1, 0x07: 2, 0xad: 3}}
	ll2 := gtab.LookupList{{
		Meta:      meta(1, 0),
		Subtables: []gtab.Subtable{&gtab.Gsub1_2{Cov: covOf([]glyph.ID{1, 2}), SubstituteGlyphIDs: []glyph.ID{3, 1}}},
	}}
	regressRoundTrip(t, "quoted-escapes/control", bell, false, ll2)
}

// Ranges of single substitutions were written as "4-6 -> 7-9" for glyphs
// without a name; the lexer reads "-6" as a negative number.
func TestC19RegressNumericRange(t *testing.T) {
	ll := gtab.LookupList{{
		Meta:      meta(1, 0),
		Subtables: []gtab.Subtable{&gtab.Gsub1_1{Cov: setOf([]glyph.ID{4, 5, 6}), Delta: 3}},
	}}
	regressRoundTrip(t, "numeric-range/bare", fixedFonts[2], false, ll)
	regressRoundTrip(t, "numeric-range/cmap-only", fixedFonts[1], false, ll)
	regressRoundTrip(t, "numeric-range/names", fixedFonts[0], false, ll)
}

// The range abbreviation was also applied to ligature lookups, where
// "A - C -> D - F" means a three-glyph ligature with three results; the
// first mapping of a run was not even checked to be a single glyph.
func TestC19RegressLigatureRange(t *testing.T) {
	one := func(out glyph.ID) []gtab.Ligature { return []gtab.Ligature{{Out: out}} }
	ll := gtab.LookupList{{
		Meta:      meta(4, 0),
		Subtables: []gtab.Subtable{&gtab.Gsub4_1{Cov: covOf([]glyph.ID{1, 2, 3}), Repl: [][]gtab.Ligature{one(4), one(5), one(6)}}},
	}}
	regressRoundTrip(t, "ligature-range/single", fixedFonts[0], false, ll)
	ll2 := gtab.LookupList{{
		Meta: meta(4, 0),
		Subtables: []gtab.Subtable{&gtab.Gsub4_1{Cov: covOf([]glyph.ID{1, 2, 3}),
			Repl: [][]gtab.Ligature{{{In: []glyph.ID{9}, Out: 4}}, one(5), one(6)}}},
	}}
	regressRoundTrip(t, "ligature-range/first-longer", fixedFonts[0], false, ll2)
}

// A pair-class or mark-to-base subtable that is not the first subtable of
// its lookup was written with an empty line after "||", where the parser
// allows a single line end only.
func TestC19RegressGposSubtableSeparator(t *testing.T) {
	m2b := func(mark, base glyph.ID) *gtab.Gpos4_1 {
		return &gtab.Gpos4_1{
			MarkCov: covOf([]glyph.ID{mark}), BaseCov: covOf([]glyph.ID{base}),
			MarkArray: []markarray.Record{{Class: 0, Table: anchor.Table{X: 1, Y: 2}}},
			BaseArray: [][]anchor.Table{{{X: 3, Y: 4}}},
		}
	}
	ll := gtab.LookupList{{Meta: meta(4, 0), Subtables: []gtab.Subtable{m2b(13, 1), m2b(14, 2)}}}
	regressRoundTrip(t, "gpos-subtable-separator/mark-to-base", fixedFonts[0], true, ll)
	bases := &gtab.Gpos4_1{MarkCov: covOf(nil), BaseCov: covOf([]glyph.ID{2}), BaseArray: [][]anchor.Table{{}}}
	ll = gtab.LookupList{{Meta: meta(4, 0), Subtables: []gtab.Subtable{m2b(13, 1), bases}}}
	regressRoundTrip(t, "gpos-subtable-separator/bases-only", fixedFonts[0], true, ll)
	adj := &gtab.PairAdjust{First: &gtab.GposValueRecord{XAdvance: -10}}
	none := &gtab.PairAdjust{}
	ll = gtab.LookupList{{Meta: meta(2, 0), Subtables: []gtab.Subtable{
		gtab.Gpos2_1{glyph.Pair{Left: 1, Right: 2}: adj},
		&gtab.Gpos2_2{Cov: setOf([]glyph.ID{1, 3}), Class1: classdef.Table{3: 1}, Class2: classdef.Table{4: 1},
			Adjust: [][]*gtab.PairAdjust{{none, none}, {none, adj}}},
	}}}
	regressRoundTrip(t, "gpos-subtable-separator/pair-classes", fixedFonts[0], true, ll)
}

// A quoted string with a rune the font does not map left the goroutine that
// decodes the string blocked for ever (one goroutine per failed Parse).
func TestC19RegressStringGoroutine(t *testing.T) {
	for i, fs := range fixedFonts {
		f := fs.build()
		text := "GSUB2: 1 -> \"ΩABCD\"\n"
		if i != 2 {
			text = "GSUB2: 1 -> \"ABΩCD\"\n"
		}
		base := runtime.NumGoroutine()
		_, err, pn := watchedParse("regress", fs, f, text)
		if pn != nil || err == nil || !strings.Contains(err.Error(), "not in mapped") {
			t.Fatalf("font %s: unexpected result %v %v", fs.Kind, err, pn)
		}
		if e := waitGoroutines(base); e != nil {
			t.Fatalf("font %s, input %q: %v", fs.Kind, text, e)
		}
		stats.CaseIn("regress", stats.Hash("string-goroutine", fs.Kind), true, func() string { return text }, "string-goroutine")
	}
}

// Errors found by the lexer and errors found when the input ends carried
// line number 0.
func TestC19RegressErrorLine(t *testing.T) {
	fs := fixedFonts[0]
	f := fs.build()
	for _, text := range []string{
		"GSUB1: A",                     // input ends inside a rule
		"GSUB1: A -> B\nGSUB1: \"A",    // unterminated string on line 2
		"GSUB1: A -> B\n\n$",           // stray character on line 3
		"GSUB1: A -> B\nGSUB2: A -> $", // stray character met inside a rule
		"GSUB5: [A] [",                 // input ends inside a set
	} {
		_, err, pn := watchedParse("regress", fs, f, text)
		if pn != nil || err == nil {
			t.Fatalf("input %q: unexpected result %v %v", text, err, pn)
		}
		if e := checkErrorLine(text, err); e != nil {
			t.Fatalf("input %q: %v", text, e)
		}
		stats.CaseIn("regress", stats.Hash("error-line", text), true, func() string { return text + " => " + err.Error() }, "error-line")
	}
}

// ---------------------------------------------------------------------
// Pinned examples of the documented syntax: the descriptions the
// repository's own tests use, with the lookup list each one denotes
// (worked out by hand from the test case expectations).

func TestC19PinnedSyntax(t *testing.T) {
	fs := fixedFonts[0] // glyph k is the k-th capital letter
	f := fs.build()
	for _, c := range []struct{ text, want string }{
		{"GSUB1: A->B, M->N", "0. type=1 flags=0x0: single{1>2, 13>14}\n"},
		{"GSUB1: A-C -> B-D, M->N, N->O", "0. type=1 flags=0x0: single{1>2, 2>3, 3>4, 13>14, 14>15}\n"},
		{"GSUB1: -base A->B, B->A", "0. type=1 flags=0x2: single{1>2, 2>1}\n"},
		{"GSUB1: C-A -> X-Z", "0. type=1 flags=0x0: single{1>26, 2>25, 3>24}\n"},
		{`GSUB2: -marks A -> "ABA", M -> A`, "0. type=2 flags=0x8: multiple{1>1 2 1, 13>1}\n"},
		{`GSUB3: A -> [ "BCD" ]`, "0. type=3 flags=0x0: alternate{1>[2 3 4]}\n"},
		{"GSUB3: A -> [D B D C]", "0. type=3 flags=0x0: alternate{1>[2 3 4]}\n"},
		{"GSUB4: -marks A A A -> B, A -> D, A A -> C", "0. type=4 flags=0x8: ligature{1>(1 1)=2|()=4|(1)=3}\n"},
		{`GSUB4: -marks -ligs "AB" -> "X"`, "0. type=4 flags=0xc: ligature{1>(2)=24}\n"},
		{`GSUB5: "AAA" -> 1@0 2@1 1@0, "AAB" -> 1@0 1@1 2@0`, "0. type=5 flags=0x0: ctx1{1>(1 1)->1@0 2@1 1@0|(1 2)->1@0 1@1 2@0}\n"},
		{"GSUB5:\n class :alpha: = [A-C]\n class :digits: = [L-M]\n /A B C/ :alpha: :digits: -> 2@1, :alpha: :: :digits: -> 2@2",
			"0. type=5 flags=0x0: ctx2{cov[1 2 3] in{1:[1 2 3] 2:[12 13]} rules{0:; 1:(2)->2@1|(0 2)->2@2}}\n"},
		{"GSUB5: [A B C] [A C] [A D] -> 3@0", "0. type=5 flags=0x0: ctx3{[1 2 3] [1 3] [1 4] -> 3@0}\n"},
		{"GSUB6: A B | C D | E F -> 1@0 2@1, B | C D E | F -> 1@2",
			"0. type=6 flags=0x0: cctx1{3>b(2 1)i(4)l(5 6)->1@0 2@1|b(2)i(4 5)l(6)->1@2}\n"},
		{"GSUB6:\n inputclass :ABC: = [\"ABC\"]\n backtrackclass :DEF: = [\"DEF\"]\n lookaheadclass :DEF: = [\"DEF\"]\n /A B C/ :DEF: :: | :ABC: | :: :DEF: -> 1@0",
			"0. type=6 flags=0x0: cctx2{cov[1 2 3] back{1:[4 5 6]} in{1:[1 2 3]} look{1:[4 5 6]} rules{0:; 1:b(0 1)i()l(0 1)->1@0}}\n"},
		{"GSUB6: [A] [A B C] | [A B] [A C] [B C] | [A B C] [A B C] -> 1@0 1@1 1@2",
			"0. type=6 flags=0x0: cctx3{b [1 2 3] [1] | i [1 2] [1 3] [2 3] | l [1 2 3] [1 2 3] -> 1@0 1@1 1@2}\n"},
		{"GPOS1: -marks [M] -> y+500", "0. type=1 flags=0x8: pos1all{[13] -> x0,y500,dx0}\n"},
		{"GPOS1: [A-C] -> y+10 ||\n D -> dx-1, E -> dx+1, H -> x+1, I -> _",
			"0. type=1 flags=0x0: pos1all{[1 2 3] -> x0,y10,dx0} || pos1{4>x0,y0,dx-1, 5>x0,y0,dx1, 8>x1,y0,dx0, 9>_}\n"},
		{`GPOS2: A V -> dx-100, O O -> dx+100, "AW" -> dx-100`, "0. type=2 flags=0x0: pair1{1 22>x0,y0,dx-100, 1 23>x0,y0,dx-100, 15 15>x0,y0,dx100}\n"},
		{"GPOS2: T E -> y+100 dx-50 & y-100", "0. type=2 flags=0x0: pair1{20 5>x0,y100,dx-50&x0,y-100,dx0}\n"},
		{"GPOS2:\n /A L V W/\n first V W, A L;\n second E O, V W;\n _, _, _,\n _, dx-50 & y-10, dx+10,\n _, dx-10 & y+10, dx-30",
			"0. type=2 flags=0x0: pair2{cov[1 12 22 23] c1{1:[22 23] 2:[1 12]} c2{1:[5 15] 2:[22 23]} adj{_, _, _; _, x0,y0,dx-50&x0,y-10,dx0, x0,y0,dx10; _, x0,y0,dx-10&x0,y10,dx0, x0,y0,dx-30}}\n"},
		{"GPOS3:\n A: 1,1 to 2,2; B: 1,0 to 0,1; C: -1,-1 to 100,100 ||\n M: 1,1 to 2,2; N: 1,1 to 2,2",
			"0. type=3 flags=0x0: cursive{1>1,1 to 2,2, 2>1,0 to 0,1, 3>-1,-1 to 100,100} || cursive{13>1,1 to 2,2, 14>1,1 to 2,2}\n"},
		{"GPOS4:\n mark M: 0@100,100;\n mark N: 1@200,100;\n base A: @400,1000 @500,1000;\n base B: @500,1000 @600,900;",
			"0. type=4 flags=0x0: markbase{marks{13>0@100,100, 14>1@200,100} bases{1>@400,1000 @500,1000, 2>@500,1000 @600,900}}\n"},
		{"# only a comment\n\nGSUB1: A -> B # trailing\n;;\nGPOS1: A -> x+1", "0. type=1 flags=0x0: single{1>2}\n1. type=1 flags=0x0: pos1{1>x1,y0,dx0}\n"},
		{`GSUB2: A -> "\"" space 27 "é"`, "0. type=2 flags=0x0: multiple{1>29 28 27 27}\n"},
		{"GSUB1: A.sc -> x, x -> 31", "0. type=1 flags=0x0: single{30>31, 31>30}\n"},
	} {
		base := runtime.NumGoroutine()
		ll, err, pn := watchedParse("pinned", fs, f, c.text)
		if pn != nil || err != nil {
			t.Fatalf("description %q: %v %v", c.text, err, pn)
		}
		if got := normList(ll); got != c.want {
			t.Fatalf("description %q\nwant %sgot  %s", c.text, c.want, got)
		}
		if e := waitGoroutines(base); e != nil {
			t.Fatal(e)
		}
		stats.CaseIn("pinned-syntax", stats.Hash(c.text), true, func() string { return c.text + " => " + c.want })
	}
	stats.Exhaustive("pinned-syntax")
}
