package c19

import (
	"fmt"
	"runtime"
	"testing"

	"pgregory.net/rapid"

	"seehuhn.de/go/sfnt/cff"
	"seehuhn.de/go/sfnt/cmap"
	"seehuhn.de/go/sfnt/glyph"

	"verif/harness/stats"
)

// TestC19FontHistory: the notation is read relative to a font, and a font
// value is a plain struct that callers edit in place (rename glyphs, install
// another character map, swap the outlines).  One font VALUE is taken
// through two to four such states; in every state a description written from
// the grammar for that state must be read as the intended lookup list, and
// Explain/Parse must round-trip - whatever was parsed for the value before.
func TestC19FontHistory(t *testing.T) {
	rapid.Check(t, func(t *rapid.T) {
		gpos := rapid.IntRange(0, 2).Draw(t, "gpos") == 0
		fs := genFont(t, "")
		lc := genLookups(t, fs, gpos, 0)
		f := fs.build()
		want := normList(lc.ll)
		base := runtime.NumGoroutine()
		var history []string
		nStates := rapid.IntRange(2, 4).Draw(t, "nStates")
		changedNames, changedRunes := false, false
		for step := 0; step < nStates; step++ {
			if step > 0 {
				next := genFontN(t, "", fs.N)
				how := "rebuilt"
				switch o := f.Outlines.(type) {
				case *cff.Outlines:
					if next.Names != nil && rapid.Bool().Draw(t, "renameInPlace") {
						// the same outlines, other names
						for i, g := range o.Glyphs {
							g.Name = next.Names[i]
						}
						how = "renamed in place"
					} else {
						f.Outlines = next.build().Outlines
					}
				default:
					f.Outlines = next.build().Outlines
				}
				if rapid.Bool().Draw(t, "keepCmap") {
					next.Runes = fs.Runes
					if next.Kind == "bare" {
						next.Kind = "cmap"
					}
					if fs.Kind == "bare" {
						next.Kind = "bare"
					}
				} else if rapid.Bool().Draw(t, "installCMap") {
					m := cmap.Format12{}
					for r, g := range next.Runes {
						m[uint32(r)] = g
					}
					f.InstallCMap(m)
					how += ", InstallCMap"
				} else {
					f.CMapTable = next.build().CMapTable
					how += ", CMapTable replaced"
				}
				if fmt.Sprint(next.Names) != fmt.Sprint(fs.Names) {
					changedNames = true
				}
				if fmt.Sprint(next.Runes) != fmt.Sprint(fs.Runes) {
					changedRunes = true
				}
				fs = next
				history = append(history, how)
			}
			describe := func(text string) string {
				return fmt.Sprintf("state %d of the font value (changes so far: %v)\n%s\nintended lookups:\n%sdescription:\n%s\n", step, history, fs, want, text)
			}
			text, _ := render(t, fs, gpos, lc.ll)
			got, err, pn := watchedParse("history", fs, f, text)
			if pn != nil {
				t.Fatalf("Parse: %s\n%s\n%s", pn, pn.Stack, describe(text))
			}
			if err != nil {
				t.Fatalf("Parse rejects a description written from the grammar: %v\n%s", err, describe(text))
			}
			if g := normList(got); g != want {
				t.Fatalf("Parse read a different lookup list:\n%s%s", g, describe(text))
			}
			if _, text, err := roundTrip(fs, f, gpos, lc.ll); err != nil {
				t.Fatalf("%v\n%s", err, describe(text))
			}
		}
		if err := waitGoroutines(base); err != nil {
			t.Fatalf("%v", err)
		}
		var labels []string
		if changedNames {
			labels = append(labels, "glyph-names-changed")
		}
		if changedRunes {
			labels = append(labels, "character-map-changed")
		}
		labels = append(labels, fmt.Sprintf("states-%d", nStates))
		stats.CaseIn("font-history", stats.Hash(fs.String(), want, fmt.Sprint(history)), changedNames || changedRunes, func() string {
			return fmt.Sprintf("%v\n%s\n%s", history, fs, want)
		}, labels...)
	})
}

var _ glyph.ID
