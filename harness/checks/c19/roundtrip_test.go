package c19

import (
	"encoding/json"
	"fmt"
	"os"
	"reflect"
	"runtime"
	"sort"
	"strings"
	"testing"

	"pgregory.net/rapid"

	"seehuhn.de/go/sfnt"
	"seehuhn.de/go/sfnt/glyph"
	"seehuhn.de/go/sfnt/opentype/classdef"
	"seehuhn.de/go/sfnt/opentype/gdef"
	"seehuhn.de/go/sfnt/opentype/gtab"
	"seehuhn.de/go/sfnt/opentype/gtab/builder"

	"verif/harness/guard"
	"verif/harness/stats"
)

func TestMain(m *testing.M) { stats.MainExit(m) }

// payload is what the watchdog stores for a call in flight: the font and
// the text, so that TestReplayHang can repeat the call on its own.
func payload(fs *fontSpec, text string) []byte {
	type jsonSpec struct {
		Kind  string
		N     int
		Names []string
		Runes map[string]int
	}
	js := jsonSpec{Kind: fs.Kind, N: fs.N, Names: fs.Names, Runes: map[string]int{}}
	for r, g := range fs.Runes {
		js.Runes[fmt.Sprint(int(r))] = int(g)
	}
	head, _ := json.Marshal(js)
	return append(append(head, '\n'), text...)
}

func parsePayload(data []byte) (*fontSpec, string, error) {
	i := strings.IndexByte(string(data), '\n')
	if i < 0 {
		return nil, "", fmt.Errorf("no header line")
	}
	var js struct {
		Kind  string
		N     int
		Names []string
		Runes map[string]int
	}
	if err := json.Unmarshal(data[:i], &js); err != nil {
		return nil, "", err
	}
	fs := &fontSpec{Kind: js.Kind, N: js.N, Names: js.Names, Runes: map[rune]glyph.ID{}}
	for k, g := range js.Runes {
		var r int
		fmt.Sscan(k, &r)
		fs.Runes[rune(r)] = glyph.ID(g)
	}
	return fs, string(data[i+1:]), nil
}

// TestReplayHang repeats a call that was in flight when the watchdog fired.
func TestReplayHang(t *testing.T) {
	path := os.Getenv("VERIF_REPLAY_FILE")
	if path == "" {
		t.Skip("no replay file")
	}
	data, err := os.ReadFile(path)
	if err != nil {
		t.Fatal(err)
	}
	fs, text, err := parsePayload(data)
	if err != nil {
		t.Fatal(err)
	}
	f := fs.build()
	watch("replay", data, func() {
		if pn := guard.Try(func() { builder.Parse(f, text) }); pn != nil {
			t.Fatalf("Parse: %s", pn)
		}
	})
}

// watchedParse runs builder.Parse under the hang watchdog (20 s) and the panic guard.
func watchedParse(name string, fs *fontSpec, f *sfnt.Font, text string) (ll gtab.LookupList, err error, pn *guard.Panic) {
	watch(name, payload(fs, text), func() {
		pn = guard.Try(func() { ll, err = builder.Parse(f, text) })
	})
	return
}

// explain writes the description of a lookup list (all GSUB or all GPOS).
func explain(f *sfnt.Font, gpos bool, ll gtab.LookupList) (text string, pn *guard.Panic) {
	pn = guard.Try(func() {
		if gpos {
			f.Gpos = &gtab.Info{LookupList: ll}
			f.Gsub = nil
			text = strings.Join(builder.ExplainGpos(f), "\n")
		} else {
			f.Gsub = &gtab.Info{LookupList: ll}
			f.Gpos = nil
			text = builder.ExplainGsub(f)
		}
	})
	return
}

// roundTrip checks the notation clauses for one lookup list; it returns the
// re-read list.
func roundTrip(fs *fontSpec, f *sfnt.Font, gpos bool, ll gtab.LookupList) (gtab.LookupList, string, error) {
	want := normList(ll)
	text, pn := explain(f, gpos, ll)
	if pn != nil {
		return nil, "", fmt.Errorf("Explain: %s\n%s", pn, pn.Stack)
	}
	l1, err, pn := watchedParse("roundtrip", fs, f, text)
	if pn != nil {
		return nil, text, fmt.Errorf("Parse(Explain(L)): %s\n%s", pn, pn.Stack)
	}
	if err != nil {
		return nil, text, fmt.Errorf("Parse(Explain(L)) fails: %v", err)
	}
	if got := normList(l1); got != want {
		return nil, text, fmt.Errorf("Parse(Explain(L)) is a different lookup list:\n--- L\n%s--- Parse(Explain(L))\n%s", want, got)
	}
	text1, pn := explain(f, gpos, l1)
	if pn != nil {
		return nil, text, fmt.Errorf("Explain(L1): %s", pn)
	}
	if text1 != text {
		return nil, text, fmt.Errorf("Explain(Parse(Explain(L))) differs from Explain(L):\n%q\n%q", text, text1)
	}
	l2, err, pn := watchedParse("roundtrip", fs, f, text1)
	if pn != nil || err != nil {
		return nil, text, fmt.Errorf("second Parse fails: %v %v", err, pn)
	}
	if !reflect.DeepEqual(l1, l2) {
		return nil, text, fmt.Errorf("Parse(Explain(L1)) != L1 structurally:\n%s\n%s", normList(l1), normList(l2))
	}
	return l1, text, nil
}

// ---------------------------------------------------------------- meaning

func makeGdef(fs *fontSpec, core []glyph.ID) *gdef.Table {
	// deterministic classes: core glyphs cycle through base/ligature/mark/none
	cls := classdef.Table{}
	for i, g := range core {
		switch i % 4 {
		case 0:
			cls[g] = gdef.GlyphClassBase
		case 1:
			cls[g] = gdef.GlyphClassMark
		case 2:
			cls[g] = gdef.GlyphClassLigature
		}
	}
	return &gdef.Table{GlyphClass: cls}
}

func fmtSeq(seq []glyph.Info) string {
	var sb strings.Builder
	for i, g := range seq {
		if i > 0 {
			sb.WriteByte(' ')
		}
		fmt.Fprintf(&sb, "%d%q(%d,%d;%d)", g.GID, string(g.Text), g.XOffset, g.YOffset, g.Advance)
	}
	return sb.String()
}

func applyOne(ll gtab.LookupList, gd *gdef.Table, idx int, in []glyph.ID) (string, *guard.Panic) {
	seq := make([]glyph.Info, len(in))
	for i, g := range in {
		seq[i] = glyph.Info{GID: g, Text: []rune{rune('a' + i)}, Advance: 500}
	}
	var out []glyph.Info
	pn := guard.Try(func() {
		out = gtab.NewContext(ll, gd, []gtab.LookupIndex{gtab.LookupIndex(idx)}).Apply(seq)
	})
	if pn != nil {
		return "panic:" + pn.Key(), pn
	}
	return fmtSeq(out), nil
}

// sameMeaning applies every lookup of both lists to all glyph sequences up
// to maxLen over the alphabet and compares the results.
func sameMeaning(a, b gtab.LookupList, gd *gdef.Table, alphabet []glyph.ID, maxLen int) (n int, panics int, err error) {
	if len(a) != len(b) {
		return 0, 0, fmt.Errorf("%d vs %d lookups", len(a), len(b))
	}
	seq := make([]glyph.ID, 0, maxLen)
	var rec func() error
	rec = func() error {
		if len(seq) > 0 {
			for idx := range a {
				ra, pa := applyOne(a, gd, idx, seq)
				rb, _ := applyOne(b, gd, idx, seq)
				n++
				if pa != nil {
					panics++
				}
				if ra != rb {
					return fmt.Errorf("lookup %d on glyphs %v: original gives %s, re-read gives %s", idx, seq, ra, rb)
				}
			}
		}
		if len(seq) == maxLen {
			return nil
		}
		for _, g := range alphabet {
			seq = append(seq, g)
			if err := rec(); err != nil {
				return err
			}
			seq = seq[:len(seq)-1]
		}
		return nil
	}
	err = rec()
	return
}

func featLabels(feat map[string]bool) []string {
	var res []string
	for k, v := range feat {
		if v {
			res = append(res, k)
		}
	}
	sort.Strings(res)
	return res
}

func subtableLabels(ll gtab.LookupList) []string {
	seen := map[string]bool{}
	for _, l := range ll {
		for _, st := range l.Subtables {
			seen[strings.TrimPrefix(strings.TrimPrefix(fmt.Sprintf("%T", st), "*"), "gtab.")] = true
		}
	}
	return featLabels(seen)
}

func runRoundTrip(t *rapid.T, sub string, gpos bool, only int) {
	fs := genFont(t, "")
	lc := genLookups(t, fs, gpos, only)
	f := fs.build()
	describe := func(text string) string {
		return fmt.Sprintf("%s\nlookups:\n%sdescription:\n%s\n", fs, normList(lc.ll), text)
	}
	base := runtime.NumGoroutine()
	l1, text, err := roundTrip(fs, f, gpos, lc.ll)
	if err != nil {
		t.Fatalf("%v\n%s", err, describe(text))
	}
	// meaning: the re-read list acts like the original one
	alphabet := append([]glyph.ID(nil), lc.core...)
	for g := 1; g < fs.N; g++ { // one glyph outside the core alphabet
		out := true
		for _, c := range lc.core {
			if int(c) == g {
				out = false
			}
		}
		if out {
			alphabet = append(alphabet, glyph.ID(g))
			break
		}
	}
	// all sequences up to maxLen: 340-1554 sequences (quick), 780-1554 (thorough)
	maxLen := 4
	switch {
	case len(alphabet) > 5 && !stats.Thorough(), len(alphabet) > 6:
		maxLen = 3
	case len(alphabet) <= 4 && stats.Thorough():
		maxLen = 5
	}
	nApply, nPanic, err := sameMeaning(lc.ll, l1, makeGdef(fs, lc.core), alphabet, maxLen)
	if err != nil {
		t.Fatalf("meaning changed: %v\n%s", err, describe(text))
	}
	if err := waitGoroutines(base); err != nil {
		t.Fatalf("%v\n%s", err, describe(text))
	}
	stats.LabelN(sub, "apply-comparisons", int64(nApply))
	if nPanic > 0 {
		stats.LabelN(sub, "apply-panics-both-sides", int64(nPanic))
	}

	nSub := 0
	for _, l := range lc.ll {
		if len(l.Subtables) > nSub {
			nSub = len(l.Subtables)
		}
	}
	nt := nSub >= 2 || lc.feat["flags"] || lc.feat["nested-action"]
	labels := append([]string{"font:" + fs.Kind}, featLabels(lc.feat)...)
	labels = append(labels, subtableLabels(lc.ll)...)
	if strings.Contains(text, "\"") {
		labels = append(labels, "text:quoted-string")
	}
	if !gpos && rangeRe.MatchString(text) {
		labels = append(labels, "text:range")
	}
	stats.CaseIn(sub, stats.Hash(fs.String(), normList(lc.ll)), nt, func() string { return describe(text) }, labels...)
}

func TestC19RoundTripGsub(t *testing.T) {
	rapid.Check(t, func(t *rapid.T) { runRoundTrip(t, "roundtrip-gsub", false, 0) })
}

func TestC19RoundTripGpos(t *testing.T) {
	rapid.Check(t, func(t *rapid.T) { runRoundTrip(t, "roundtrip-gpos", true, 0) })
}
