package c19

import (
	"fmt"
	"regexp"
	"runtime"
	"time"
)

var rangeRe = regexp.MustCompile(`[A-Za-z0-9."] ?- ?[A-Za-z0-9."]+ ->`)

// waitGoroutines polls until the number of goroutines is back at (or
// below) base.  A finished goroutine may need a few scheduler rounds to
// disappear, a leaked one never does.  The verdict "leak" is given only
// after at least 2 s of wall-clock time *and* at least 500 polling rounds
// that each yield the processor, so that a process that was frozen for a
// while (loaded machine, CPU quota) does not produce a false alarm.
func waitGoroutines(base int) error {
	start := time.Now()
	for i := 0; ; i++ {
		n := runtime.NumGoroutine()
		if n <= base {
			return nil
		}
		if i >= 550 && time.Since(start) >= 2*time.Second {
			buf := make([]byte, 1<<16)
			buf = buf[:runtime.Stack(buf, true)]
			msg := fmt.Sprintf("goroutine leak: %d goroutines before the call, %d still running %v (%d polls) after it returned",
				base, n, time.Since(start).Round(time.Millisecond), i)
			return fmt.Errorf("%s\n%s\n%s", msg, buf, msg)
		}
		switch {
		case i < 50:
			runtime.Gosched()
		case i < 550:
			time.Sleep(time.Millisecond)
		default:
			time.Sleep(10 * time.Millisecond)
		}
	}
}
