package c19

import (
	"fmt"
	"os"
	"regexp"
	"runtime"
	"time"

	"verif/harness/guard"
)

var rangeRe = regexp.MustCompile(`[A-Za-z0-9."] ?- ?[A-Za-z0-9."]+ ->`)

// waitGoroutines polls until the number of goroutines is back at (or
// below) base.  A finished goroutine may need a few scheduler rounds to
// disappear, a leaked one never does.  The verdict "leak" is given only
// after at least 2 s of wall-clock time *and* at least 500 polling rounds
// that each yield the processor, so that a process that was frozen for a
// while (loaded machine, CPU quota) does not produce a false alarm.
func waitGoroutines(base int) error {
	start := time.Now()
	for i := 0; ; i++ {
		n := runtime.NumGoroutine()
		if n <= base {
			return nil
		}
		if i >= 550 && time.Since(start) >= 2*time.Second {
			buf := make([]byte, 1<<16)
			buf = buf[:runtime.Stack(buf, true)]
			msg := fmt.Sprintf("goroutine leak: %d goroutines before the call, %d still running %v (%d polls) after it returned",
				base, n, time.Since(start).Round(time.Millisecond), i)
			return fmt.Errorf("%s\n%s\n%s", msg, buf, msg)
		}
		switch {
		case i < 50:
			runtime.Gosched()
		case i < 550:
			time.Sleep(time.Millisecond)
		default:
			time.Sleep(10 * time.Millisecond)
		}
	}
}

// watch is guard.Watch (same protocol: in-flight input written to
// $VERIF_REPLAY_OUT, VERIF-HANG line, exit status guard.ExitHang) with a
// limit that is counted in timer ticks instead of being one long timer: the
// machines these checks run on can be paused and resumed, which makes the
// monotonic clock jump; a single 20 s timer then fires at once, whereas 200
// ticks of 100 ms need 200 separate wake-ups.
func watch(name string, input []byte, fn func()) {
	done := make(chan struct{})
	go func() {
		tick := time.NewTicker(100 * time.Millisecond)
		defer tick.Stop()
		for n := 0; n < watchTicks; n++ {
			select {
			case <-done:
				return
			case <-tick.C:
			}
		}
		select {
		case <-done:
			return
		default:
		}
		if dir := os.Getenv("VERIF_REPLAY_OUT"); dir != "" {
			os.MkdirAll(dir, 0o755)
			os.WriteFile(dir+"/inflight-"+name+".bin", input, 0o644)
		}
		fmt.Fprintf(os.Stderr, "VERIF-HANG target=%s len=%d limit=%d ticks of 100ms\n", name, len(input), watchTicks)
		buf := make([]byte, 1<<16)
		os.Stderr.Write(buf[:runtime.Stack(buf, true)])
		os.Exit(guard.ExitHang)
	}()
	defer close(done)
	fn()
}

var watchTicks = func() int {
	n := 200
	if s := os.Getenv("VERIF_HANG_SCALE"); s != "" {
		var k int
		fmt.Sscan(s, &k)
		if k > 1 {
			n *= k
		}
	}
	return n
}()
