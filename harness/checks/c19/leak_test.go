package c19

import (
	"fmt"
	"regexp"
	"runtime"
	"time"
)

var rangeRe = regexp.MustCompile(`[A-Za-z0-9."] ?- ?[A-Za-z0-9."]+ ->`)

// waitGoroutines polls until the number of goroutines is back at (or
// below) base.  The wait is bounded by 2 s; on a loaded machine a finished
// goroutine may take a few scheduler rounds to disappear, a leaked one
// never does.
func waitGoroutines(base int) error {
	deadline := time.Now().Add(2 * time.Second)
	for i := 0; ; i++ {
		n := runtime.NumGoroutine()
		if n <= base {
			return nil
		}
		if time.Now().After(deadline) {
			buf := make([]byte, 1<<16)
			buf = buf[:runtime.Stack(buf, true)]
			return fmt.Errorf("goroutine leak: %d goroutines before the call, %d still running 2 s after it returned\n%s", base, n, buf)
		}
		if i < 50 {
			runtime.Gosched()
		} else {
			time.Sleep(time.Millisecond)
		}
	}
}
