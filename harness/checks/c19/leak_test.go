package c19

import (
	"fmt"
	"os"
	"regexp"
	"runtime"
	"strings"
	"time"

	"verif/harness/guard"
)

var rangeRe = regexp.MustCompile(`[A-Za-z0-9."] ?- ?[A-Za-z0-9."]+ ->`)

// libraryGoroutines returns the stacks of all goroutines other than the
// calling one that run, or were started by, code of the library.
func libraryGoroutines() []string {
	buf := make([]byte, 1<<20)
	buf = buf[:runtime.Stack(buf, true)]
	blocks := strings.Split(string(buf), "\n\n")
	var res []string
	for i, b := range blocks {
		if i == 0 { // the calling goroutine comes first
			continue
		}
		if strings.Contains(b, "seehuhn.de/go/sfnt") {
			res = append(res, b)
		}
	}
	return res
}

// leakedSoFar counts library goroutines that were already reported (they
// never go away; rapid keeps running cases while it shrinks).
var leakedSoFar int

// waitGoroutines decides whether the call that just returned left a
// goroutine of the library behind.  base is runtime.NumGoroutine() from
// before the call.  Fast path: the count is back at (or below) base.
// Otherwise the goroutine dump decides: the case passes as soon as no
// goroutine with a library frame (other than ones reported earlier) is left;
// a finished goroutine may need a few scheduler rounds to disappear, a leaked
// one never does.  The verdict "leak" is given only after at least 2 s of
// wall-clock time *and* at least 550 polling rounds that each yield the
// processor, so that a process that was frozen for a while (loaded machine,
// paused VM) does not produce a false alarm.  The dump, not the counter, has
// the last word because NumGoroutine is computed without locks and was seen
// to under-report for an instant while other goroutines exit (a baseline of
// 2 with 5 goroutines alive), which would turn into a false leak report.
func waitGoroutines(base int) error {
	start := time.Now()
	for i := 0; ; i++ {
		n := runtime.NumGoroutine()
		if n <= base {
			return nil
		}
		switch {
		case i < 50:
			runtime.Gosched()
			continue
		case i < 550:
			time.Sleep(time.Millisecond)
			if i%50 != 0 {
				continue
			}
		default:
			time.Sleep(10 * time.Millisecond)
		}
		lib := libraryGoroutines()
		if len(lib) <= leakedSoFar {
			return nil
		}
		if i >= 550 && time.Since(start) >= 2*time.Second {
			leakedSoFar = len(lib)
			return fmt.Errorf("goroutine leak: %d goroutines before the call, %d still running %v (%d polls) after it returned; goroutines of the library still alive:\n%s",
				base, n, time.Since(start).Round(time.Millisecond), i, strings.Join(lib, "\n\n"))
		}
	}
}

// watch is guard.Watch (same protocol: in-flight input written to
// $VERIF_REPLAY_OUT, VERIF-HANG line, exit status guard.ExitHang) with a
// limit that is counted in timer ticks instead of being one long timer: the
// machines these checks run on can be paused and resumed, which makes the
// monotonic clock jump; a single 20 s timer then fires at once, whereas 200
// ticks of 100 ms need 200 separate wake-ups.
func watch(name string, input []byte, fn func()) {
	done := make(chan struct{})
	go func() {
		tick := time.NewTicker(100 * time.Millisecond)
		defer tick.Stop()
		for n := 0; n < watchTicks; n++ {
			select {
			case <-done:
				return
			case <-tick.C:
			}
		}
		select {
		case <-done:
			return
		default:
		}
		if dir := os.Getenv("VERIF_REPLAY_OUT"); dir != "" {
			os.MkdirAll(dir, 0o755)
			os.WriteFile(dir+"/inflight-"+name+".bin", input, 0o644)
		}
		fmt.Fprintf(os.Stderr, "VERIF-HANG target=%s len=%d limit=%d ticks of 100ms\n", name, len(input), watchTicks)
		buf := make([]byte, 1<<16)
		os.Stderr.Write(buf[:runtime.Stack(buf, true)])
		os.Exit(guard.ExitHang)
	}()
	defer close(done)
	fn()
}

var watchTicks = func() int {
	n := 200
	if s := os.Getenv("VERIF_HANG_SCALE"); s != "" {
		var k int
		fmt.Sscan(s, &k)
		if k > 1 {
			n *= k
		}
	}
	return n
}()
