package c19

import (
	"fmt"
	"sort"
	"strings"

	"pgregory.net/rapid"

	"seehuhn.de/go/postscript/funit"

	"seehuhn.de/go/sfnt/glyph"
	"seehuhn.de/go/sfnt/opentype/anchor"
	"seehuhn.de/go/sfnt/opentype/classdef"
	"seehuhn.de/go/sfnt/opentype/coverage"
	"seehuhn.de/go/sfnt/opentype/gtab"
)

// The harness's own writer for the language, derived from the grammar the
// parser implements and from the descriptions used in the repository's tests
// and test cases (which are the only documentation of the syntax):
//
//   glyph    := name | decimal glyph id | "string" (one glyph per rune, via cmap)
//   list     := (glyph | glyph "-" glyph)*          ranges run up or down by glyph id
//   set      := "[" list "]"                         order and repetition irrelevant
//   lookup   := ("GSUB"n | "GPOS"n) [":"] [EOL] ("-marks" | "-ligs" | "-base")* [EOL] body
//   subtables are separated by "||" [EOL], rules by "," [EOL]
//   actions  := (lookup "@" position)*
//   "#" starts a comment; lookups are separated by EOL or ";"
//
// Every syntactic freedom is drawn at random, so that a description has a
// known meaning (the lookup list it was written from) but not the shape
// ExplainGsub/ExplainGpos would give it.

type renderer struct {
	t  *rapid.T
	fs *fontSpec
	sb strings.Builder

	byGid map[glyph.ID][]rune // usable runes per glyph, sorted
	// plain = true: no random choices that change the token stream's shape
	used map[string]bool
	// lastUnderscore: the last value record was written as the single word "_"
	lastUnderscore bool
}

func newRenderer(t *rapid.T, fs *fontSpec) *renderer {
	r := &renderer{t: t, fs: fs, byGid: map[glyph.ID][]rune{}, used: map[string]bool{}}
	var rr []int
	for c := range fs.Runes {
		if c != 0 {
			rr = append(rr, int(c))
		}
	}
	sort.Ints(rr)
	for _, c := range rr {
		g := fs.Runes[rune(c)]
		r.byGid[g] = append(r.byGid[g], rune(c))
	}
	return r
}

func (r *renderer) chance(label string, outOf int) bool {
	return rapid.IntRange(0, outOf-1).Draw(r.t, label) == 0
}

func (r *renderer) w(s string) { r.sb.WriteString(s) }

// sp writes optional white space between two tokens.
func (r *renderer) sp() {
	r.w(rapid.SampledFrom([]string{" ", " ", " ", "", "  ", "\t", "  "}).Draw(r.t, "space"))
}

// gap writes mandatory white space.
func (r *renderer) gap() {
	r.w(rapid.SampledFrom([]string{" ", " ", "  ", "\t"}).Draw(r.t, "gap"))
}

var commentTexts = []string{"# comment", "#", "# GSUB1: A -> B", "# \"unterminated", "#|| -> [", "# ünï"}

// eol writes a line end, sometimes preceded by a comment.
func (r *renderer) eol() {
	if r.chance("comment", 6) {
		r.w(" " + rapid.SampledFrom(commentTexts).Draw(r.t, "commentText"))
		r.used["comment"] = true
	}
	r.w("\n")
	if r.chance("indent", 2) {
		r.w("\t")
	}
}

// optEOL writes a line end where the grammar allows (at most) one.
func (r *renderer) optEOL() {
	if r.chance("eol", 2) {
		r.eol()
	}
}

func quoteRune(c rune, t *rapid.T) string {
	switch c {
	case '"':
		return `\"`
	case '\\':
		return `\\`
	case '\n':
		return `\n`
	case '\r':
		if rapid.Bool().Draw(t, "escCR") {
			return `\r`
		}
	case '\t':
		if rapid.Bool().Draw(t, "escTab") {
			return `\t`
		}
	}
	return string(c)
}

func (r *renderer) runeFor(g glyph.ID) (rune, bool) {
	rr := r.byGid[g]
	if len(rr) == 0 {
		return 0, false
	}
	return rapid.SampledFrom(rr).Draw(r.t, "runeFor"), true
}

func (r *renderer) nameOK(g glyph.ID) bool {
	return r.fs.Names != nil && int(g) < len(r.fs.Names) && r.fs.Names[g] != ""
}

// glyphRef writes one glyph in one of its notations and reports whether the
// text ends in a digit string (a following "-" would then need a space).
func (r *renderer) glyphRef(g glyph.ID, afterHyphen bool) {
	var forms []string
	if r.nameOK(g) {
		forms = append(forms, "name", "name", "name")
	}
	if len(r.byGid[g]) > 0 {
		forms = append(forms, "string", "string")
	}
	forms = append(forms, "number")
	switch rapid.SampledFrom(forms).Draw(r.t, "glyphForm") {
	case "name":
		r.w(r.fs.Names[g])
		r.used["glyph-name"] = true
	case "string":
		c, _ := r.runeFor(g)
		r.w(`"` + quoteRune(c, r.t) + `"`)
		r.used["glyph-string"] = true
	default:
		if afterHyphen {
			r.w(" ") // "-5" would be a negative number
		}
		if r.chance("plusSign", 8) {
			r.w("+")
		}
		fmt.Fprintf(&r.sb, "%d", g)
		r.used["glyph-number"] = true
	}
}

// list writes a glyph list.
func (r *renderer) list(gg []glyph.ID) {
	i := 0
	first := true
	for i < len(gg) {
		if !first {
			r.gap()
		}
		first = false
		// a range over consecutive glyph ids, upwards or downwards
		run := 1
		if i+1 < len(gg) && gg[i+1] == gg[i]+1 {
			for i+run < len(gg) && gg[i+run] == gg[i+run-1]+1 {
				run++
			}
		} else if i+1 < len(gg) && gg[i+1]+1 == gg[i] {
			for i+run < len(gg) && gg[i+run]+1 == gg[i+run-1] {
				run++
			}
		}
		if run >= 2 && r.chance("useRange", 2) {
			n := rapid.IntRange(2, run).Draw(r.t, "rangeLen")
			r.glyphRef(gg[i], false)
			r.w(rapid.SampledFrom([]string{"-", " - ", " -", "- "}).Draw(r.t, "hyphen"))
			// the end of the range may be the first character of a string that
			// goes on with further glyphs of the list (a string stands for its
			// glyphs one after the other; the hyphen connects the glyph before
			// it with the glyph behind it)
			m := 0
			for i+n-1+m < len(gg) && len(r.byGid[gg[i+n-1+m]]) > 0 {
				m++
			}
			if m >= 2 && r.chance("rangeEndsInString", 3) {
				k := rapid.IntRange(2, m).Draw(r.t, "rangeStringLen")
				r.w(`"`)
				for q := 0; q < k; q++ {
					c, _ := r.runeFor(gg[i+n-1+q])
					r.w(quoteRune(c, r.t))
				}
				r.w(`"`)
				i += n - 1 + k
				r.used["range"] = true
				r.used["range-ends-in-multi-glyph-string"] = true
				continue
			}
			r.glyphRef(gg[i+n-1], true)
			i += n
			r.used["range"] = true
			continue
		}
		if r.chance("degenerateRange", 40) {
			// "A-A" is the single glyph A
			r.glyphRef(gg[i], false)
			r.w(" - ")
			r.glyphRef(gg[i], true)
			i++
			r.used["range"] = true
			continue
		}
		// a string covering several glyphs
		m := 0
		for i+m < len(gg) && len(r.byGid[gg[i+m]]) > 0 {
			m++
		}
		if m >= 2 && r.chance("useString", 2) {
			n := rapid.IntRange(2, m).Draw(r.t, "stringLen")
			r.w(`"`)
			for k := 0; k < n; k++ {
				c, _ := r.runeFor(gg[i+k])
				r.w(quoteRune(c, r.t))
			}
			r.w(`"`)
			i += n
			r.used["multi-glyph-string"] = true
			continue
		}
		r.glyphRef(gg[i], false)
		i++
	}
}

// set writes a glyph set: any order, repetitions allowed.
func (r *renderer) set(gg []glyph.ID) {
	gg = append([]glyph.ID(nil), gg...)
	if len(gg) > 1 && r.chance("setOrder", 2) {
		gg = rapid.Permutation(gg).Draw(r.t, "setPerm")
		r.used["set-unordered"] = true
	}
	if len(gg) > 0 && r.chance("setDup", 5) {
		gg = append(gg, gg[rapid.IntRange(0, len(gg)-1).Draw(r.t, "dup")])
		r.used["set-duplicate"] = true
	}
	r.w("[")
	r.sp()
	r.list(gg)
	r.sp()
	r.w("]")
}

func (r *renderer) header(kind string, meta *gtab.LookupMetaInfo) {
	fmt.Fprintf(&r.sb, "%s%d", kind, meta.LookupType)
	if !r.chance("noColon", 4) {
		r.w(":")
	} else {
		r.used["header-without-colon"] = true
	}
	eolBefore := r.chance("eolBeforeFlags", 4)
	if eolBefore {
		r.eol()
	}
	var ff []string
	if meta.LookupFlags&gtab.IgnoreMarks != 0 {
		ff = append(ff, "marks")
	}
	if meta.LookupFlags&gtab.IgnoreLigatures != 0 {
		ff = append(ff, "ligs")
	}
	if meta.LookupFlags&gtab.IgnoreBaseGlyphs != 0 {
		ff = append(ff, "base")
	}
	if len(ff) > 1 {
		ff = rapid.Permutation(ff).Draw(r.t, "flagOrder")
	}
	if len(ff) > 0 && r.chance("flagTwice", 6) {
		ff = append(ff, ff[0])
	}
	for _, f := range ff {
		r.gap()
		r.w("-")
		if r.chance("flagSpace", 6) {
			r.w(" ")
		}
		r.w(f)
		r.used["flag"] = true
	}
	if r.chance("eolAfterFlags", 3) {
		r.eol()
	} else {
		r.gap()
	}
}

func (r *renderer) arrow() {
	r.sp()
	r.w("->")
	r.sp()
}

func (r *renderer) comma() {
	r.sp()
	r.w(",")
	r.sp()
	r.optEOL()
}

func (r *renderer) or() {
	r.gap()
	r.w("||")
	r.gap()
	r.optEOL()
}

func (r *renderer) actions(aa []gtab.SeqLookup) {
	for i, a := range aa {
		if i > 0 {
			r.gap()
		}
		fmt.Fprintf(&r.sb, "%d", a.LookupListIndex)
		r.w(rapid.SampledFrom([]string{"@", "@", " @ "}).Draw(r.t, "at"))
		fmt.Fprintf(&r.sb, "%d", a.SequenceIndex)
	}
}

func (r *renderer) int16(v funit.Int16, glued bool) {
	switch {
	case glued: // directly after a word: needs a sign or a space
		if r.chance("intSpace", 3) {
			fmt.Fprintf(&r.sb, " %d", v)
		} else {
			fmt.Fprintf(&r.sb, "%+d", v)
		}
	case v >= 0 && r.chance("intPlus", 4):
		fmt.Fprintf(&r.sb, "+%d", v)
	default:
		fmt.Fprintf(&r.sb, "%d", v)
	}
}

func (r *renderer) valueRecord(v *gtab.GposValueRecord) {
	r.lastUnderscore = false
	if vrIsZero(v) {
		if r.chance("explicitZero", 5) {
			r.w(rapid.SampledFrom([]string{"x+0", "dx 0", "y-0 x+0"}).Draw(r.t, "zeroForm"))
			r.used["explicit-zero-record"] = true
		} else {
			r.w("_")
			r.lastUnderscore = true
		}
		return
	}
	type field struct {
		word string
		val  funit.Int16
	}
	var ff []field
	if v.XPlacement != 0 {
		ff = append(ff, field{"x", v.XPlacement})
	}
	if v.YPlacement != 0 {
		ff = append(ff, field{"y", v.YPlacement})
	}
	if v.XAdvance != 0 {
		ff = append(ff, field{"dx", v.XAdvance})
	}
	if len(ff) > 1 {
		ff = rapid.Permutation(ff).Draw(r.t, "fieldOrder")
	}
	for i, f := range ff {
		if i > 0 {
			r.gap()
		}
		r.w(f.word)
		r.int16(f.val, true)
	}
}

func (r *renderer) pairAdjust(p *gtab.PairAdjust) {
	r.valueRecord(p.First)
	if p.Second != nil {
		r.sp()
		r.w("&")
		r.sp()
		r.valueRecord(p.Second)
	}
}

func (r *renderer) anchor(a anchor.Table) {
	r.int16(a.X, false)
	r.sp()
	r.w(",")
	r.sp()
	r.int16(a.Y, false)
}

// interleave merges per-first-glyph rule lists into one sequence that keeps
// the order inside each list (only that order carries meaning).
func interleave[T any](t *rapid.T, groups [][]T) []T {
	var res []T
	idx := make([]int, len(groups))
	for {
		var live []int
		for i, g := range groups {
			if idx[i] < len(g) {
				live = append(live, i)
			}
		}
		if len(live) == 0 {
			return res
		}
		i := rapid.SampledFrom(live).Draw(t, "interleave")
		res = append(res, groups[i][idx[i]])
		idx[i]++
	}
}

var classNamePool = []string{"alpha", "digits", "c1", "c2", "c3", "x", "A", "ABC", "marks", "class", "_", "k.1"}

func (r *renderer) classNames(k int) []string {
	names := make([]string, k+1) // names[0] = "" is class 0
	perm := rapid.Permutation(classNamePool).Draw(r.t, "classNames")
	for i := 1; i <= k; i++ {
		names[i] = perm[i-1]
	}
	return names
}

func (r *renderer) classDefs(keyword string, c classdef.Table, names []string) {
	byClass := map[uint16][]glyph.ID{}
	for g, cls := range c {
		byClass[cls] = append(byClass[cls], g)
	}
	for cls := 1; cls < len(names); cls++ {
		r.w(keyword)
		r.gap()
		r.w(":" + names[cls] + ":")
		r.sp()
		if !r.chance("noEqual", 3) {
			r.w("=")
			r.sp()
		}
		r.set(sortedGids(byClass[uint16(cls)]))
		if r.chance("classSameLine", 5) {
			r.gap()
		} else {
			r.eol()
		}
		r.used["class-definition"] = true
	}
}

func (r *renderer) classSeq(cc []uint16, names []string) {
	for i, c := range cc {
		if i > 0 {
			r.sp()
		}
		if c == 0 {
			r.w(rapid.SampledFrom([]string{"::", ": :"}).Draw(r.t, "class0"))
		} else {
			r.w(":" + names[c] + ":")
		}
	}
}

func (r *renderer) covList(gg []glyph.ID) {
	gg = append([]glyph.ID(nil), gg...)
	if len(gg) > 1 && r.chance("covOrder", 2) {
		gg = rapid.Permutation(gg).Draw(r.t, "covPerm")
	}
	r.w("/")
	r.sp()
	r.list(gg)
	r.sp()
	r.w("/")
}

func (r *renderer) sets(ss []coverage.Set) {
	for i, s := range ss {
		if i > 0 {
			r.sp()
		}
		r.set(covSetKeys(s))
	}
}

func revGids(gg []glyph.ID) []glyph.ID {
	res := make([]glyph.ID, len(gg))
	for i, g := range gg {
		res[len(gg)-1-i] = g
	}
	return res
}

func revU16(gg []uint16) []uint16 {
	res := make([]uint16, len(gg))
	for i, g := range gg {
		res[len(gg)-1-i] = g
	}
	return res
}

func revSets(gg []coverage.Set) []coverage.Set {
	res := make([]coverage.Set, len(gg))
	for i, g := range gg {
		res[len(gg)-1-i] = g
	}
	return res
}

type pairKV struct {
	from, to []glyph.ID
}

func (r *renderer) subtable(st gtab.Subtable) {
	switch l := st.(type) {
	case *gtab.Gsub1_1, *gtab.Gsub1_2:
		// group the single substitutions into "list -> list" mappings
		var from, to []glyph.ID
		switch l := l.(type) {
		case *gtab.Gsub1_1:
			from = covSetKeys(l.Cov)
			for _, g := range from {
				to = append(to, g+l.Delta)
			}
		case *gtab.Gsub1_2:
			from = covTableKeys(l.Cov)
			for _, g := range from {
				to = append(to, l.SubstituteGlyphIDs[l.Cov[g]])
			}
		}
		var groups []pairKV
		for i := 0; i < len(from); {
			n := 1
			if r.chance("groupMappings", 2) {
				n = rapid.IntRange(1, len(from)-i).Draw(r.t, "groupLen")
			}
			groups = append(groups, pairKV{from[i : i+n], to[i : i+n]})
			if n > 1 {
				r.used["grouped-mapping"] = true
			}
			i += n
		}
		if len(groups) > 1 && r.chance("groupOrder", 2) {
			groups = rapid.Permutation(groups).Draw(r.t, "groupPerm")
		}
		for i, g := range groups {
			if i > 0 {
				r.comma()
			}
			r.list(g.from)
			r.arrow()
			r.list(g.to)
		}
	case *gtab.Gsub2_1:
		keys := covTableKeys(l.Cov)
		if len(keys) > 1 && r.chance("ruleOrder", 2) {
			keys = rapid.Permutation(keys).Draw(r.t, "rulePerm")
		}
		for i, g := range keys {
			if i > 0 {
				r.comma()
			}
			r.glyphRef(g, false)
			r.arrow()
			r.list(l.Repl[l.Cov[g]])
		}
	case *gtab.Gsub3_1:
		keys := covTableKeys(l.Cov)
		if len(keys) > 1 && r.chance("ruleOrder", 2) {
			keys = rapid.Permutation(keys).Draw(r.t, "rulePerm")
		}
		for i, g := range keys {
			if i > 0 {
				r.comma()
			}
			r.glyphRef(g, false)
			r.arrow()
			r.set(l.Alternates[l.Cov[g]])
		}
	case *gtab.Gsub4_1:
		var groups [][]pairKV
		for _, g := range covTableKeys(l.Cov) {
			var grp []pairKV
			for _, lig := range l.Repl[l.Cov[g]] {
				grp = append(grp, pairKV{append([]glyph.ID{g}, lig.In...), []glyph.ID{lig.Out}})
			}
			groups = append(groups, grp)
		}
		for i, m := range interleave(r.t, groups) {
			if i > 0 {
				r.comma()
			}
			r.list(m.from)
			r.arrow()
			r.list(m.to)
		}
	case *gtab.SeqContext1:
		type rule struct {
			in  []glyph.ID
			act []gtab.SeqLookup
		}
		var groups [][]rule
		for _, g := range covTableKeys(l.Cov) {
			var grp []rule
			for _, ru := range l.Rules[l.Cov[g]] {
				grp = append(grp, rule{append([]glyph.ID{g}, ru.Input...), ru.Actions})
			}
			groups = append(groups, grp)
		}
		for i, ru := range interleave(r.t, groups) {
			if i > 0 {
				r.comma()
			}
			r.list(ru.in)
			r.arrow()
			r.actions(ru.act)
		}
	case *gtab.SeqContext2:
		names := r.classNames(l.Input.NumClasses() - 1)
		r.classDefs("class", l.Input, names)
		r.covList(covTableKeys(l.Cov))
		type rule struct {
			in  []uint16
			act []gtab.SeqLookup
		}
		var groups [][]rule
		for cls, rr := range l.Rules {
			var grp []rule
			for _, ru := range rr {
				grp = append(grp, rule{append([]uint16{uint16(cls)}, ru.Input...), ru.Actions})
			}
			groups = append(groups, grp)
		}
		for i, ru := range interleave(r.t, groups) {
			if i > 0 {
				r.comma()
			}
			r.sp()
			r.classSeq(ru.in, names)
			r.arrow()
			r.actions(ru.act)
		}
	case *gtab.SeqContext3:
		r.sets(l.Input)
		r.arrow()
		r.actions(l.Actions)
	case *gtab.ChainedSeqContext1:
		type rule struct {
			back, in, look []glyph.ID
			act            []gtab.SeqLookup
		}
		var groups [][]rule
		for _, g := range covTableKeys(l.Cov) {
			var grp []rule
			for _, ru := range l.Rules[l.Cov[g]] {
				grp = append(grp, rule{revGids(ru.Backtrack), append([]glyph.ID{g}, ru.Input...), ru.Lookahead, ru.Actions})
			}
			groups = append(groups, grp)
		}
		for i, ru := range interleave(r.t, groups) {
			if i > 0 {
				r.comma()
			}
			r.list(ru.back)
			r.sp()
			r.w("|")
			r.sp()
			r.list(ru.in)
			r.sp()
			r.w("|")
			r.sp()
			r.list(ru.look)
			r.arrow()
			r.actions(ru.act)
		}
	case *gtab.ChainedSeqContext2:
		bn := r.classNames(l.Backtrack.NumClasses() - 1)
		in := r.classNames(l.Input.NumClasses() - 1)
		ln := r.classNames(l.Lookahead.NumClasses() - 1)
		order := rapid.Permutation([]int{0, 1, 2}).Draw(r.t, "classKindOrder")
		for _, k := range order {
			switch k {
			case 0:
				r.classDefs("backtrackclass", l.Backtrack, bn)
			case 1:
				r.classDefs("inputclass", l.Input, in)
			case 2:
				r.classDefs("lookaheadclass", l.Lookahead, ln)
			}
		}
		r.covList(covTableKeys(l.Cov))
		type rule struct {
			back, in, look []uint16
			act            []gtab.SeqLookup
		}
		var groups [][]rule
		for cls, rr := range l.Rules {
			var grp []rule
			for _, ru := range rr {
				grp = append(grp, rule{revU16(ru.Backtrack), append([]uint16{uint16(cls)}, ru.Input...), ru.Lookahead, ru.Actions})
			}
			groups = append(groups, grp)
		}
		for i, ru := range interleave(r.t, groups) {
			if i > 0 {
				r.comma()
			}
			r.sp()
			r.classSeq(ru.back, bn)
			r.sp()
			r.w("|")
			r.sp()
			r.classSeq(ru.in, in)
			r.sp()
			r.w("|")
			r.sp()
			r.classSeq(ru.look, ln)
			r.arrow()
			r.actions(ru.act)
		}
	case *gtab.ChainedSeqContext3:
		r.sets(revSets(l.Backtrack))
		r.sp()
		r.w("|")
		r.sp()
		r.sets(l.Input)
		r.sp()
		r.w("|")
		r.sp()
		r.sets(l.Lookahead)
		r.arrow()
		r.actions(l.Actions)
	case *gtab.Gpos1_1:
		r.set(covTableKeys(l.Cov))
		r.arrow()
		r.valueRecord(l.Adjust)
	case *gtab.Gpos1_2:
		keys := covTableKeys(l.Cov)
		if len(keys) > 1 && r.chance("ruleOrder", 2) {
			keys = rapid.Permutation(keys).Draw(r.t, "rulePerm")
		}
		for i, g := range keys {
			if i > 0 {
				r.comma()
			}
			r.glyphRef(g, false)
			r.arrow()
			r.valueRecord(l.Adjust[l.Cov[g]])
		}
	case gtab.Gpos2_1:
		var pp []glyph.Pair
		for p := range l {
			pp = append(pp, p)
		}
		sort.Slice(pp, func(i, j int) bool {
			if pp[i].Left != pp[j].Left {
				return pp[i].Left < pp[j].Left
			}
			return pp[i].Right < pp[j].Right
		})
		if len(pp) > 1 && r.chance("ruleOrder", 2) {
			pp = rapid.Permutation(pp).Draw(r.t, "rulePerm")
		}
		for i, p := range pp {
			if i > 0 {
				r.comma()
			}
			r.list([]glyph.ID{p.Left, p.Right})
			r.arrow()
			r.pairAdjust(l[p])
		}
	case *gtab.Gpos2_2:
		r.covList(covSetKeys(l.Cov))
		r.optEOL()
		for k, c := range []classdef.Table{l.Class1, l.Class2} {
			r.sp()
			r.w([]string{"first", "second"}[k])
			byClass := map[uint16][]glyph.ID{}
			for g, cls := range c {
				byClass[cls] = append(byClass[cls], g)
			}
			for cls := 1; cls < c.NumClasses(); cls++ {
				if cls > 1 {
					r.w(",")
				}
				r.gap()
				r.list(sortedGids(byClass[uint16(cls)]))
			}
			r.sp()
			r.w(";")
			r.optEOL()
		}
		for i, row := range l.Adjust {
			for j, a := range row {
				if j > 0 {
					// the comma may be left out next to "_"
					if r.lastUnderscore && r.chance("noMatrixComma", 3) {
						r.used["matrix-without-comma"] = true
						r.gap()
					} else {
						r.sp()
						r.w(",")
						r.sp()
					}
				}
				r.pairAdjust(a)
			}
			last := i == len(l.Adjust)-1
			switch {
			case last && r.chance("noRowEnd", 2):
			case r.chance("rowEndComma", 3):
				r.w(",")
			default:
				r.w(";")
			}
			if !last {
				r.optEOL()
				if r.sb.String()[r.sb.Len()-1] != '\n' && r.sb.String()[r.sb.Len()-1] != '\t' {
					r.gap()
				}
			}
		}
	case *gtab.Gpos3_1:
		keys := covTableKeys(l.Cov)
		if len(keys) > 1 && r.chance("ruleOrder", 2) {
			keys = rapid.Permutation(keys).Draw(r.t, "rulePerm")
		}
		for i, g := range keys {
			if i > 0 {
				r.sp()
				r.w(";")
				r.sp()
				r.optEOL()
			}
			r.glyphRef(g, false)
			r.sp()
			r.w(":")
			r.sp()
			rec := l.Records[l.Cov[g]]
			r.anchor(rec.Entry)
			r.gap()
			r.w("to")
			r.gap()
			r.anchor(rec.Exit)
		}
	case *gtab.Gpos4_1:
		end := func() {
			if !r.chance("noSemicolon", 3) {
				r.sp()
				r.w(";")
			}
			if r.chance("sameLine", 4) {
				r.gap()
			} else {
				r.eol()
			}
		}
		for _, g := range covTableKeys(l.MarkCov) { // ascending order is part of the syntax
			r.w("mark")
			r.gap()
			r.glyphRef(g, false)
			r.sp()
			r.w(":")
			r.sp()
			rec := l.MarkArray[l.MarkCov[g]]
			fmt.Fprintf(&r.sb, "%d", rec.Class)
			r.sp()
			r.w("@")
			r.sp()
			r.anchor(rec.Table)
			end()
		}
		for _, g := range covTableKeys(l.BaseCov) {
			r.w("base")
			r.gap()
			r.glyphRef(g, false)
			r.sp()
			r.w(":")
			for j, a := range l.BaseArray[l.BaseCov[g]] {
				if j > 0 && r.chance("anchorComma", 3) {
					r.w(",")
				}
				r.gap()
				r.w("@")
				r.sp()
				r.anchor(a)
			}
			end()
		}
	default:
		panic(fmt.Sprintf("render: unexpected subtable %T", st))
	}
}

// render writes a description of ll with freely drawn syntactic choices.
func render(t *rapid.T, fs *fontSpec, gpos bool, ll gtab.LookupList) (string, []string) {
	r := newRenderer(t, fs)
	kind := "GSUB"
	if gpos {
		kind = "GPOS"
	}
	if r.chance("leadingBlank", 4) {
		r.eol()
	}
	for _, l := range ll {
		r.header(kind, l.Meta)
		for i, st := range l.Subtables {
			if i > 0 {
				r.or()
			}
			r.subtable(st)
		}
		// lookups end at a line end or a semicolon (for cursive attachment
		// the semicolon separates records, so only the line end remains)
		end := rapid.IntRange(0, 5).Draw(t, "lookupEnd")
		if gpos && l.Meta.LookupType == 3 && end == 0 {
			end = 2
		}
		switch end {
		case 0:
			r.w(" ; ")
			r.used["semicolon-between-lookups"] = true
		case 1:
			r.eol()
			r.eol()
		default:
			r.eol()
		}
	}
	var used []string
	for k := range r.used {
		used = append(used, "syntax:"+k)
	}
	sort.Strings(used)
	return r.sb.String(), used
}
