package c19

import (
	"fmt"
	"runtime"
	"testing"

	"pgregory.net/rapid"

	"seehuhn.de/go/sfnt"
	"seehuhn.de/go/sfnt/opentype/gtab"

	"verif/harness/stats"
)

// splitByTable separates GSUB from GPOS lookups (a description may mix them).
func splitByTable(ll gtab.LookupList) (gsub, gpos gtab.LookupList) {
	for _, l := range ll {
		if isGposLookup(l) {
			gpos = append(gpos, l)
		} else {
			gsub = append(gsub, l)
		}
	}
	return
}

// reExplain: whatever Parse returns is, by definition, a lookup list the
// language can express, so describing it and reading the description back
// must give the same list again.
func reExplain(fs *fontSpec, f *sfnt.Font, ll gtab.LookupList) error {
	gsub, gpos := splitByTable(ll)
	if len(gsub) > 0 {
		if _, text, err := roundTrip(fs, f, false, gsub); err != nil {
			return fmt.Errorf("GSUB lookups read from the text do not survive Explain/Parse: %v\nExplainGsub:\n%s", err, text)
		}
	}
	if len(gpos) > 0 {
		if _, text, err := roundTrip(fs, f, true, gpos); err != nil {
			return fmt.Errorf("GPOS lookups read from the text do not survive Explain/Parse: %v\nExplainGpos:\n%s", err, text)
		}
	}
	return nil
}

// Documented-syntax clause: a description written from the grammar, with a
// known meaning, is read as exactly that lookup list.
func runSyntax(t *rapid.T, sub string, gpos bool) {
	fs := genFont(t, "")
	lc := genLookups(t, fs, gpos, 0)
	f := fs.build()
	text, used := render(t, fs, gpos, lc.ll)
	want := normList(lc.ll)
	describe := func() string {
		return fmt.Sprintf("%s\nintended lookups:\n%sdescription:\n%s\n", fs, want, text)
	}
	base := runtime.NumGoroutine()
	got, err, pn := watchedParse("syntax", fs, f, text)
	if pn != nil {
		t.Fatalf("Parse: %s\n%s\n%s", pn, pn.Stack, describe())
	}
	if err != nil {
		t.Fatalf("Parse rejects a description written from the grammar: %v\n%s", err, describe())
	}
	if g := normList(got); g != want {
		t.Fatalf("Parse read a different lookup list:\n%s%s", g, describe())
	}
	if err := reExplain(fs, f, got); err != nil {
		t.Fatalf("%v\n%s", err, describe())
	}
	if err := waitGoroutines(base); err != nil {
		t.Fatalf("%v\n%s", err, describe())
	}
	nSub := 0
	for _, l := range lc.ll {
		if len(l.Subtables) > nSub {
			nSub = len(l.Subtables)
		}
	}
	nt := nSub >= 2 || lc.feat["flags"] || lc.feat["nested-action"]
	labels := append([]string{"font:" + fs.Kind}, used...)
	labels = append(labels, subtableLabels(lc.ll)...)
	stats.CaseIn(sub, stats.Hash(fs.String(), text), nt, describe, labels...)
}

func TestC19SyntaxGsub(t *testing.T) {
	rapid.Check(t, func(t *rapid.T) { runSyntax(t, "syntax-gsub", false) })
}

func TestC19SyntaxGpos(t *testing.T) {
	rapid.Check(t, func(t *rapid.T) { runSyntax(t, "syntax-gpos", true) })
}
