package c19

import (
	"fmt"
	"sort"

	"pgregory.net/rapid"

	"seehuhn.de/go/postscript/funit"

	"seehuhn.de/go/sfnt/glyph"
	"seehuhn.de/go/sfnt/opentype/anchor"
	"seehuhn.de/go/sfnt/opentype/classdef"
	"seehuhn.de/go/sfnt/opentype/coverage"
	"seehuhn.de/go/sfnt/opentype/gtab"
	"seehuhn.de/go/sfnt/opentype/markarray"
)

// ---------------------------------------------------------------- fonts

// Glyph names a real font can carry (AGL-style: letters, digits, '.', '_',
// not starting with a digit).  Several coincide with words of the language
// that appear in *non-initial* position (x, y, dx, to, mark, base, first,
// second).  Words that open a statement (class, inputclass, backtrackclass,
// lookaheadclass, GSUBn, GPOSn) and "_" are carved out: a glyph of that name
// cannot be referred to by name, and the language has no quoting for names.
var namePool = []string{
	"x", "y", "dx", "dy", "to", "mark", "base", "first", "second", "ligs", "marks",
	"space", "one", "two", "A.sc", "B.sc", "f_i", "f_f_l", "uni0416", "u1F600", "_x", ".alt",
	"Aacute", "a", "b", "c", "e", "f", "i", "l", "Q", "Z", "zero.onum", "a.1", "a.2",
}

var reservedNames = map[string]bool{
	"class": true, "inputclass": true, "backtrackclass": true, "lookaheadclass": true, "_": true,
	"GSUB1": true, "GSUB2": true, "GSUB3": true, "GSUB4": true, "GSUB5": true, "GSUB6": true,
	"GPOS1": true, "GPOS2": true, "GPOS3": true, "GPOS4": true,
}

// printable runes, including every character that is a token of the language
var printableRunes = []rune{
	'A', 'B', 'C', 'D', 'E', 'F', 'G', 'H', 'a', 'b', 'c', 'x', 'y', 'f', 'i',
	'0', '1', '2', '9', ' ', '"', '\\', '#', '-', '|', '[', ']', '/', ':', ',', ';', '@', '&', '=', '>', '_', '.', '+',
	'é', 'ß', 'Ж', 'я', '中', '€',
}

// runes that fmt's %q writes as an escape sequence
var escapedRunes = []rune{'\n', '\r', '\t', 0x07, 0x1b, 0x7f, 0xa0, 0xad, 0x200b, 0x2028, 0xfeff}

var astralRunes = []rune{0x1F600, 0x10041, 0x1D11E}

func isLetterRune(r rune) bool {
	return r >= 'A' && r <= 'Z' || r >= 'a' && r <= 'z'
}

// genFont draws a font of the given kind ("" = draw the kind as well).
func genFont(t *rapid.T, kind string) *fontSpec { return genFontN(t, kind, 0) }

// genFontN is genFont with a given number of glyphs (0: drawn).
func genFontN(t *rapid.T, kind string, n int) *fontSpec {
	if kind == "" {
		kind = rapid.SampledFrom([]string{"names+cmap", "names+cmap", "cmap", "cmap", "bare", "mixed", "mixed"}).Draw(t, "fontKind")
	}
	fs := &fontSpec{Kind: kind, Runes: map[rune]glyph.ID{}}
	if n > 0 {
		fs.N = n
	} else {
		fs.N = rapid.IntRange(6, 24).Draw(t, "numGlyphs")
		if rapid.IntRange(0, 19).Draw(t, "bigFont") == 0 {
			fs.N = rapid.IntRange(200, 300).Draw(t, "numGlyphsBig")
		}
	}
	hasNames := kind == "names+cmap" || kind == "mixed"
	hasCmap := kind != "bare"

	// character map first, so that names can follow the mapped letters
	runeOf := make([]rune, fs.N) // first rune drawn for the glyph, 0 = none
	if hasCmap {
		pMapped := 9 // out of 10
		if kind == "mixed" {
			pMapped = rapid.IntRange(2, 9).Draw(t, "pMapped")
		}
		useEsc := rapid.IntRange(0, 7).Draw(t, "escRunes") == 0
		useAstral := rapid.IntRange(0, 15).Draw(t, "astralRunes") == 0
		letters := rapid.Bool().Draw(t, "letterFont")
		for g := 1; g < fs.N; g++ {
			if rapid.IntRange(0, 9).Draw(t, "mapped") >= pMapped {
				continue
			}
			var r rune
			switch {
			case letters && g <= 26:
				r = rune('A' + g - 1)
			case useEsc && rapid.IntRange(0, 3).Draw(t, "esc") == 0:
				r = rapid.SampledFrom(escapedRunes).Draw(t, "escRune")
			case useAstral && rapid.IntRange(0, 3).Draw(t, "astral") == 0:
				r = rapid.SampledFrom(astralRunes).Draw(t, "astralRune")
			default:
				r = rapid.SampledFrom(printableRunes).Draw(t, "rune")
			}
			if _, used := fs.Runes[r]; used {
				continue
			}
			fs.Runes[r] = glyph.ID(g)
			runeOf[g] = r
			// a second code point for the same glyph (space / no-break space …)
			if rapid.IntRange(0, 11).Draw(t, "secondRune") == 0 {
				pool := printableRunes
				if useEsc {
					pool = escapedRunes
				}
				r2 := rapid.SampledFrom(pool).Draw(t, "rune2")
				if _, used := fs.Runes[r2]; !used {
					fs.Runes[r2] = glyph.ID(g)
				}
			}
		}
	}

	if hasNames {
		fs.Names = make([]string, fs.N)
		fs.Names[0] = ".notdef"
		used := map[string]bool{".notdef": true}
		pNamed := 10
		if kind == "mixed" {
			pNamed = rapid.IntRange(2, 9).Draw(t, "pNamed")
		}
		for g := 1; g < fs.N; g++ {
			if rapid.IntRange(0, 9).Draw(t, "named") >= pNamed {
				continue
			}
			var name string
			switch k := rapid.IntRange(0, 5).Draw(t, "nameKind"); {
			case k <= 2 && isLetterRune(runeOf[g]):
				name = string(runeOf[g]) // the usual case: glyph "A" for U+0041
			case k <= 4:
				name = rapid.SampledFrom(namePool).Draw(t, "name")
			default:
				name = fmt.Sprintf("glyph%05d", g)
			}
			for used[name] || reservedNames[name] {
				name = fmt.Sprintf("%s.g%d", name, g)
			}
			used[name] = true
			fs.Names[g] = name
		}
	}
	return fs
}

// ---------------------------------------------------------------- lookups

type lgen struct {
	t    *rapid.T
	n    int        // glyphs in the font
	core []glyph.ID // the small alphabet most rules are built from (sorted)
	// nested-action targets: indices of non-contextual lookups, so that
	// applying the list always terminates
	simple []int
	total  int // number of lookups in the list
	// long scales every list length, set size, class count and rule count
	// by four (the explainer breaks long lists over several lines)
	long bool
	// statistics
	feat map[string]bool
}

// hi is the upper bound of a count: max, or four times max in long mode.
func (g *lgen) hi(max int) int {
	if g.long {
		return 4 * max
	}
	return max
}

func (g *lgen) gid(label string) glyph.ID {
	switch k := rapid.IntRange(0, 19).Draw(g.t, label+"Src"); {
	case k == 0:
		return 0
	case k <= 3:
		return glyph.ID(rapid.IntRange(1, g.n-1).Draw(g.t, label))
	default:
		return rapid.SampledFrom(g.core).Draw(g.t, label)
	}
}

func (g *lgen) coreGid(label string) glyph.ID {
	if rapid.IntRange(0, 9).Draw(g.t, label+"Any") == 0 {
		return glyph.ID(rapid.IntRange(1, g.n-1).Draw(g.t, label))
	}
	return rapid.SampledFrom(g.core).Draw(g.t, label)
}

func (g *lgen) seq(label string, min, max int) []glyph.ID {
	n := rapid.IntRange(min, g.hi(max)).Draw(g.t, label+"Len")
	var res []glyph.ID
	for i := 0; i < n; i++ {
		res = append(res, g.gid(label))
	}
	return res
}

// set returns a sorted set of distinct glyphs.
func (g *lgen) set(label string, min, max int) []glyph.ID {
	if g.long && max >= 3 {
		max = g.hi(max)
		if max > g.n-1 {
			max = g.n - 1
		}
	}
	n := rapid.IntRange(min, max).Draw(g.t, label+"Size")
	seen := map[glyph.ID]bool{}
	var res []glyph.ID
	// sometimes a run of consecutive glyph ids (the writer abbreviates those)
	if n >= 3 && g.n-n >= 1 && rapid.IntRange(0, 2).Draw(g.t, label+"Run") == 0 {
		start := rapid.IntRange(1, g.n-n).Draw(g.t, label+"RunStart")
		for i := 0; i < n; i++ {
			res = append(res, glyph.ID(start+i))
		}
		g.feat["gid-run"] = true
		return res
	}
	for tries := 0; len(res) < n && tries < 4*n+8; tries++ {
		x := g.coreGid(label)
		if g.long && tries%2 == 1 {
			x = glyph.ID(rapid.IntRange(1, g.n-1).Draw(g.t, label+"Wide"))
		}
		if !seen[x] {
			seen[x] = true
			res = append(res, x)
		}
	}
	return sortedGids(res)
}

func covOf(gg []glyph.ID) coverage.Table {
	gg = sortedGids(gg)
	c := coverage.Table{}
	for _, x := range gg {
		if _, ok := c[x]; !ok {
			c[x] = len(c)
		}
	}
	return c
}

func setOf(gg []glyph.ID) coverage.Set {
	s := coverage.Set{}
	for _, x := range gg {
		s[x] = true
	}
	return s
}

func (g *lgen) int16(label string) funit.Int16 {
	switch rapid.IntRange(0, 9).Draw(g.t, label+"Mag") {
	case 0:
		return funit.Int16(rapid.SampledFrom([]int{-32768, 32767, -1, 1, 0}).Draw(g.t, label))
	case 1:
		return funit.Int16(rapid.IntRange(-32768, 32767).Draw(g.t, label))
	default:
		return funit.Int16(rapid.IntRange(-200, 200).Draw(g.t, label))
	}
}

// valueRecord: nil, all-zero or with some of the three fields the language
// has words for (x, y, dx).  YAdvance and device offsets have no syntax.
func (g *lgen) valueRecord(label string, allowZero bool) *gtab.GposValueRecord {
	k := rapid.IntRange(0, 9).Draw(g.t, label+"Kind")
	if allowZero {
		switch k {
		case 0:
			return nil
		case 1:
			g.feat["zero-valuerecord"] = true
			return &gtab.GposValueRecord{}
		}
	}
	for {
		v := &gtab.GposValueRecord{}
		mask := rapid.IntRange(1, 7).Draw(g.t, label+"Fields")
		if mask&1 != 0 {
			v.XPlacement = g.int16(label + "X")
		}
		if mask&2 != 0 {
			v.YPlacement = g.int16(label + "Y")
		}
		if mask&4 != 0 {
			v.XAdvance = g.int16(label + "DX")
		}
		if !vrIsZero(v) {
			return v
		}
		if allowZero {
			return nil
		}
		v.XAdvance = 1
		return v
	}
}

// pairAdjust: the second record is either absent or non-zero ("& _" reads
// back as absent, so a present all-zero second record has no notation).
func (g *lgen) pairAdjust(label string) *gtab.PairAdjust {
	p := &gtab.PairAdjust{First: g.valueRecord(label+"1", true)}
	if rapid.IntRange(0, 2).Draw(g.t, label+"HasSecond") == 0 {
		p.Second = g.valueRecord(label+"2", false)
		g.feat["pair-second"] = true
	}
	return p
}

func (g *lgen) anchor(label string) anchor.Table {
	return anchor.Table{X: g.int16(label + "X"), Y: g.int16(label + "Y")}
}

func (g *lgen) actions(label string, inputLen int) []gtab.SeqLookup {
	n := rapid.SampledFrom([]int{0, 1, 1, 1, 2, 2, 3}).Draw(g.t, label+"N")
	var res []gtab.SeqLookup
	for i := 0; i < n; i++ {
		var a gtab.SeqLookup
		switch k := rapid.IntRange(0, 9).Draw(g.t, label+"Pos"); {
		case k == 0:
			a.SequenceIndex = uint16(rapid.SampledFrom([]int{inputLen, inputLen + 1, 7, 65535}).Draw(g.t, label+"PosBig"))
		default:
			a.SequenceIndex = uint16(rapid.IntRange(0, inputLen-1).Draw(g.t, label+"PosIn"))
		}
		switch k := rapid.IntRange(0, 9).Draw(g.t, label+"Idx"); {
		case k == 0 || len(g.simple) == 0:
			// no such lookup: ignored when applied, but must survive the notation
			a.LookupListIndex = gtab.LookupIndex(rapid.SampledFrom([]int{g.total, g.total + 3, 65535}).Draw(g.t, label+"IdxBig"))
		default:
			a.LookupListIndex = gtab.LookupIndex(rapid.SampledFrom(g.simple).Draw(g.t, label+"IdxIn"))
		}
		res = append(res, a)
	}
	if n > 0 {
		g.feat["nested-action"] = true
	}
	return res
}

// classes draws a class table with classes 1..k, every class non-empty
// (the notation defines classes one by one and rejects an empty class).
func (g *lgen) classes(label string, maxK int) (classdef.Table, int) {
	k := rapid.IntRange(0, g.hi(maxK)).Draw(g.t, label+"K")
	c := classdef.Table{}
	for cls := 1; cls <= k; cls++ {
		placed := false
		for _, x := range g.set(fmt.Sprintf("%s%d", label, cls), 1, 3) {
			if _, ok := c[x]; !ok {
				c[x] = uint16(cls)
				placed = true
			}
		}
		if !placed {
			// find any free glyph
			for x := 1; x < g.n; x++ {
				if _, ok := c[glyph.ID(x)]; !ok {
					c[glyph.ID(x)] = uint16(cls)
					placed = true
					break
				}
			}
		}
		if !placed {
			return c, cls - 1
		}
	}
	if k > 0 {
		g.feat["classes"] = true
	}
	return c, k
}

func (g *lgen) classSeq(label string, k, min, max int) []uint16 {
	n := rapid.IntRange(min, g.hi(max)).Draw(g.t, label+"Len")
	var res []uint16
	for i := 0; i < n; i++ {
		res = append(res, uint16(rapid.IntRange(0, k).Draw(g.t, label)))
	}
	return res
}

func (g *lgen) gsubSubtable(typ int, idx int) gtab.Subtable {
	t := g.t
	lab := fmt.Sprintf("l%d", idx)
	switch typ {
	case 1:
		if rapid.Bool().Draw(t, lab+"Fmt1") {
			s := g.set(lab+"Cov", 1, 5)
			lo, hi := int(s[0]), int(s[len(s)-1])
			delta := rapid.IntRange(-lo, g.n-1-hi).Draw(t, lab+"Delta")
			return &gtab.Gsub1_1{Cov: setOf(s), Delta: glyph.ID(uint16(int16(delta)))}
		}
		s := g.set(lab+"Cov", 1, 6)
		sub := &gtab.Gsub1_2{Cov: covOf(s)}
		constDelta := rapid.IntRange(0, 3).Draw(t, lab+"ConstDelta") == 0
		d := rapid.IntRange(-int(s[0]), g.n-1-int(s[len(s)-1])).Draw(t, lab+"Delta")
		for _, x := range s {
			if constDelta {
				sub.SubstituteGlyphIDs = append(sub.SubstituteGlyphIDs, glyph.ID(int(x)+d))
			} else {
				sub.SubstituteGlyphIDs = append(sub.SubstituteGlyphIDs, g.gid(lab+"To"))
			}
		}
		return sub
	case 2:
		s := g.set(lab+"Cov", 1, 4)
		sub := &gtab.Gsub2_1{Cov: covOf(s)}
		for range s {
			sub.Repl = append(sub.Repl, g.seq(lab+"Repl", 1, 3))
		}
		return sub
	case 3:
		s := g.set(lab+"Cov", 1, 3)
		sub := &gtab.Gsub3_1{Cov: covOf(s)}
		for range s {
			// the notation is a set: ascending, no duplicates
			sub.Alternates = append(sub.Alternates, g.set(lab+"Alt", 0, 4))
		}
		return sub
	case 4:
		// mostly small; sometimes many ligatures spread over few first glyphs
		// (their order within a set is significant)
		n := rapid.OneOf(rapid.IntRange(1, 5), rapid.IntRange(1, 5), rapid.IntRange(6, 40)).Draw(t, lab+"NLig")
		if n > 12 {
			g.feat["ligatures>12"] = true
		}
		byFirst := map[glyph.ID][]gtab.Ligature{}
		var firsts []glyph.ID
		for i := 0; i < n; i++ {
			first := g.coreGid(lab + "First")
			lig := gtab.Ligature{In: g.seq(lab+"In", 0, 3), Out: g.gid(lab + "Out")}
			if _, ok := byFirst[first]; !ok {
				firsts = append(firsts, first)
			} else {
				g.feat["shared-first-glyph"] = true
			}
			byFirst[first] = append(byFirst[first], lig)
		}
		sub := &gtab.Gsub4_1{Cov: covOf(firsts), Repl: make([][]gtab.Ligature, len(firsts))}
		for f, i := range sub.Cov {
			sub.Repl[i] = byFirst[f]
		}
		return sub
	case 5:
		switch rapid.IntRange(1, 3).Draw(t, lab+"Fmt") {
		case 1:
			n := rapid.IntRange(1, g.hi(4)).Draw(t, lab+"NRules")
			byFirst := map[glyph.ID][]*gtab.SeqRule{}
			var firsts []glyph.ID
			for i := 0; i < n; i++ {
				first := g.coreGid(lab + "First")
				in := g.seq(lab+"In", 0, 3)
				r := &gtab.SeqRule{Input: in, Actions: g.actions(lab+"Act", len(in)+1)}
				if _, ok := byFirst[first]; !ok {
					firsts = append(firsts, first)
				} else {
					g.feat["shared-first-glyph"] = true
				}
				byFirst[first] = append(byFirst[first], r)
			}
			sub := &gtab.SeqContext1{Cov: covOf(firsts), Rules: make([][]*gtab.SeqRule, len(firsts))}
			for f, i := range sub.Cov {
				sub.Rules[i] = byFirst[f]
			}
			return sub
		case 2:
			cls, k := g.classes(lab+"Cls", 3)
			sub := &gtab.SeqContext2{Cov: covOf(g.set(lab+"Cov", 0, 4)), Input: cls, Rules: make([][]*gtab.ClassSeqRule, k+1)}
			n := rapid.IntRange(1, g.hi(4)).Draw(t, lab+"NRules")
			for i := 0; i < n; i++ {
				c0 := rapid.IntRange(0, k).Draw(t, lab+"C0")
				in := g.classSeq(lab+"In", k, 0, 3)
				sub.Rules[c0] = append(sub.Rules[c0], &gtab.ClassSeqRule{Input: in, Actions: g.actions(lab+"Act", len(in)+1)})
			}
			return sub
		default:
			n := rapid.IntRange(1, g.hi(3)).Draw(t, lab+"NIn")
			sub := &gtab.SeqContext3{}
			for i := 0; i < n; i++ {
				sub.Input = append(sub.Input, setOf(g.set(lab+"InSet", 0, 3)))
			}
			sub.Actions = g.actions(lab+"Act", n)
			return sub
		}
	case 6:
		switch rapid.IntRange(1, 3).Draw(t, lab+"Fmt") {
		case 1:
			n := rapid.IntRange(1, g.hi(4)).Draw(t, lab+"NRules")
			byFirst := map[glyph.ID][]*gtab.ChainedSeqRule{}
			var firsts []glyph.ID
			for i := 0; i < n; i++ {
				first := g.coreGid(lab + "First")
				in := g.seq(lab+"In", 0, 2)
				r := &gtab.ChainedSeqRule{
					Backtrack: g.seq(lab+"Back", 0, 2),
					Input:     in,
					Lookahead: g.seq(lab+"Look", 0, 2),
					Actions:   g.actions(lab+"Act", len(in)+1),
				}
				if len(r.Backtrack) > 1 {
					g.feat["backtrack>1"] = true
				}
				if _, ok := byFirst[first]; !ok {
					firsts = append(firsts, first)
				} else {
					g.feat["shared-first-glyph"] = true
				}
				byFirst[first] = append(byFirst[first], r)
			}
			sub := &gtab.ChainedSeqContext1{Cov: covOf(firsts), Rules: make([][]*gtab.ChainedSeqRule, len(firsts))}
			for f, i := range sub.Cov {
				sub.Rules[i] = byFirst[f]
			}
			return sub
		case 2:
			back, kb := g.classes(lab+"BackCls", 2)
			in, ki := g.classes(lab+"InCls", 2)
			look, kl := g.classes(lab+"LookCls", 2)
			sub := &gtab.ChainedSeqContext2{
				Cov: covOf(g.set(lab+"Cov", 0, 4)), Backtrack: back, Input: in, Lookahead: look,
				Rules: make([][]*gtab.ChainedClassSeqRule, ki+1),
			}
			n := rapid.IntRange(1, g.hi(3)).Draw(t, lab+"NRules")
			for i := 0; i < n; i++ {
				c0 := rapid.IntRange(0, ki).Draw(t, lab+"C0")
				inSeq := g.classSeq(lab+"In", ki, 0, 2)
				r := &gtab.ChainedClassSeqRule{
					Backtrack: g.classSeq(lab+"Back", kb, 0, 2),
					Input:     inSeq,
					Lookahead: g.classSeq(lab+"Look", kl, 0, 2),
					Actions:   g.actions(lab+"Act", len(inSeq)+1),
				}
				if len(r.Backtrack) > 1 {
					g.feat["backtrack>1"] = true
				}
				sub.Rules[c0] = append(sub.Rules[c0], r)
			}
			return sub
		default:
			sub := &gtab.ChainedSeqContext3{}
			nb := rapid.IntRange(0, g.hi(2)).Draw(t, lab+"NBack")
			ni := rapid.IntRange(1, g.hi(2)).Draw(t, lab+"NIn")
			nl := rapid.IntRange(0, g.hi(2)).Draw(t, lab+"NLook")
			for i := 0; i < nb; i++ {
				sub.Backtrack = append(sub.Backtrack, setOf(g.set(lab+"BackSet", 0, 3)))
			}
			for i := 0; i < ni; i++ {
				sub.Input = append(sub.Input, setOf(g.set(lab+"InSet", 0, 3)))
			}
			for i := 0; i < nl; i++ {
				sub.Lookahead = append(sub.Lookahead, setOf(g.set(lab+"LookSet", 0, 3)))
			}
			if nb > 1 {
				g.feat["backtrack>1"] = true
			}
			sub.Actions = g.actions(lab+"Act", ni)
			return sub
		}
	}
	panic("unreachable")
}

func (g *lgen) gposSubtable(typ int, idx, sub int) gtab.Subtable {
	t := g.t
	lab := fmt.Sprintf("l%ds%d", idx, sub)
	switch typ {
	case 1:
		if rapid.Bool().Draw(t, lab+"Fmt1") {
			return &gtab.Gpos1_1{Cov: covOf(g.set(lab+"Cov", 0, 4)), Adjust: g.valueRecord(lab+"Adj", true)}
		}
		s := g.set(lab+"Cov", 1, 4)
		st := &gtab.Gpos1_2{Cov: covOf(s)}
		for range s {
			st.Adjust = append(st.Adjust, g.valueRecord(lab+"Adj", true))
		}
		return st
	case 2:
		if rapid.Bool().Draw(t, lab+"Fmt1") {
			st := gtab.Gpos2_1{}
			n := rapid.IntRange(1, g.hi(4)).Draw(t, lab+"NPairs")
			for i := 0; i < n; i++ {
				p := glyph.Pair{Left: g.coreGid(lab + "L"), Right: g.coreGid(lab + "R")}
				st[p] = g.pairAdjust(lab + "Adj")
			}
			return st
		}
		c1, k1 := g.classDefGaps(lab + "C1")
		c2, k2 := g.classDefGaps(lab + "C2")
		st := &gtab.Gpos2_2{Cov: setOf(g.set(lab+"Cov", 0, 4)), Class1: c1, Class2: c2}
		for i := 0; i <= k1; i++ {
			var row []*gtab.PairAdjust
			for j := 0; j <= k2; j++ {
				row = append(row, g.pairAdjust(lab+"Adj"))
			}
			st.Adjust = append(st.Adjust, row)
		}
		return st
	case 3:
		s := g.set(lab+"Cov", 1, 4)
		st := &gtab.Gpos3_1{Cov: covOf(s)}
		for range s {
			st.Records = append(st.Records, gtab.EntryExitRecord{Entry: g.anchor(lab + "En"), Exit: g.anchor(lab + "Ex")})
		}
		return st
	case 4:
		marks := g.set(lab+"Marks", 0, 3)
		nCls := 0
		if len(marks) > 0 {
			nCls = rapid.IntRange(1, len(marks)).Draw(t, lab+"NCls")
		}
		st := &gtab.Gpos4_1{MarkCov: covOf(marks)}
		for i := range marks {
			cls := i // the first nCls marks pin down classes 0..nCls-1
			if i >= nCls {
				cls = rapid.IntRange(0, nCls-1).Draw(t, lab+"Cls")
			}
			st.MarkArray = append(st.MarkArray, markarray.Record{Class: uint16(cls), Table: g.anchor(lab + "MA")})
		}
		// shuffle which mark has which class
		if len(marks) > 1 && rapid.Bool().Draw(t, lab+"Rev") {
			for i, j := 0, len(st.MarkArray)-1; i < j; i, j = i+1, j-1 {
				st.MarkArray[i], st.MarkArray[j] = st.MarkArray[j], st.MarkArray[i]
			}
		}
		bases := g.set(lab+"Bases", 0, 3)
		st.BaseCov = covOf(bases)
		for range bases {
			row := make([]anchor.Table, nCls)
			for j := range row {
				row[j] = g.anchor(lab + "BA")
			}
			st.BaseArray = append(st.BaseArray, row)
		}
		return st
	}
	panic("unreachable")
}

// classDefGaps: class table for pair positioning; "first A, , C;" can leave
// a class empty, so gaps in the numbering are part of the notation (only
// the last class must be non-empty).
func (g *lgen) classDefGaps(label string) (classdef.Table, int) {
	k := rapid.IntRange(0, g.hi(3)).Draw(g.t, label+"K")
	c := classdef.Table{}
	top := 0
	for cls := 1; cls <= k; cls++ {
		if cls < k && rapid.IntRange(0, 4).Draw(g.t, label+"Gap") == 0 {
			g.feat["class-gap"] = true
			continue
		}
		for _, x := range g.set(fmt.Sprintf("%s%d", label, cls), 1, 3) {
			if _, ok := c[x]; !ok {
				c[x] = uint16(cls)
				top = cls
			}
		}
	}
	// top is the highest class that actually got a glyph
	top = 0
	for _, cls := range c {
		if int(cls) > top {
			top = int(cls)
		}
	}
	return c, top
}

var flagSets = []gtab.LookupFlags{0, 0, 0, gtab.IgnoreMarks, gtab.IgnoreLigatures, gtab.IgnoreBaseGlyphs,
	gtab.IgnoreMarks | gtab.IgnoreLigatures, gtab.IgnoreMarks | gtab.IgnoreBaseGlyphs,
	gtab.IgnoreLigatures | gtab.IgnoreBaseGlyphs, gtab.IgnoreMarks | gtab.IgnoreLigatures | gtab.IgnoreBaseGlyphs}

type lookupCase struct {
	gpos bool
	ll   gtab.LookupList
	core []glyph.ID
	feat map[string]bool
}

// genLookups draws a lookup list in the forms the language has syntax for.
// only >= 0 restricts the list to one lookup type.
func genLookups(t *rapid.T, fs *fontSpec, gpos bool, only int) *lookupCase {
	g := &lgen{t: t, n: fs.N, feat: map[string]bool{}}
	if rapid.IntRange(0, 5).Draw(t, "longLists") == 0 {
		g.long = true
		g.feat["long-lists"] = true
	}
	nCore := rapid.IntRange(3, 6).Draw(t, "nCore")
	if nCore > fs.N-1 {
		nCore = fs.N - 1
	}
	seen := map[glyph.ID]bool{}
	// the core alphabet is often a run of neighbours (ranges!), else scattered
	if rapid.Bool().Draw(t, "coreRun") {
		start := rapid.IntRange(1, fs.N-nCore).Draw(t, "coreStart")
		for i := 0; i < nCore; i++ {
			g.core = append(g.core, glyph.ID(start+i))
		}
	} else {
		for len(g.core) < nCore {
			x := glyph.ID(rapid.IntRange(1, fs.N-1).Draw(t, "coreGid"))
			if !seen[x] {
				seen[x] = true
				g.core = append(g.core, x)
			}
		}
		sort.Slice(g.core, func(i, j int) bool { return g.core[i] < g.core[j] })
	}

	n := rapid.IntRange(1, 4).Draw(t, "nLookups")
	g.total = n
	types := make([]int, n)
	for i := range types {
		switch {
		case only > 0:
			types[i] = only
		case gpos:
			types[i] = rapid.IntRange(1, 4).Draw(t, "gposType")
		default:
			types[i] = rapid.SampledFrom([]int{1, 2, 3, 4, 4, 5, 5, 5, 6, 6, 6}).Draw(t, "gsubType")
		}
		if !gpos && types[i] <= 4 {
			g.simple = append(g.simple, i)
		}
	}
	res := &lookupCase{gpos: gpos, core: g.core, feat: g.feat}
	for i, typ := range types {
		flags := rapid.SampledFrom(flagSets).Draw(t, "flags")
		if flags != 0 {
			g.feat["flags"] = true
		}
		l := &gtab.LookupTable{Meta: &gtab.LookupMetaInfo{LookupType: uint16(typ), LookupFlags: flags}}
		nSub := 1
		// the language separates subtables by "||" only for the contextual
		// GSUB types and for all GPOS types; GSUB 1-4 have one subtable
		if gpos || typ >= 5 {
			nSub = rapid.SampledFrom([]int{1, 1, 2, 2, 3}).Draw(t, "nSubtables")
		}
		for s := 0; s < nSub; s++ {
			if gpos {
				l.Subtables = append(l.Subtables, g.gposSubtable(typ, i, s))
			} else {
				l.Subtables = append(l.Subtables, g.gsubSubtable(typ, i))
			}
		}
		if nSub > 1 {
			g.feat["subtables>1"] = true
		}
		res.ll = append(res.ll, l)
	}
	return res
}
