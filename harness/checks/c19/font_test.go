package c19

import (
	"fmt"
	"sort"
	"strings"

	"seehuhn.de/go/postscript/funit"
	"seehuhn.de/go/postscript/type1"

	"seehuhn.de/go/sfnt"
	"seehuhn.de/go/sfnt/cff"
	"seehuhn.de/go/sfnt/cmap"
	"seehuhn.de/go/sfnt/glyf"
	"seehuhn.de/go/sfnt/glyph"
)

// fontSpec describes one of the small fonts a description is written for.
type fontSpec struct {
	Kind  string   // "names+cmap", "cmap", "bare", "mixed"
	N     int      // number of glyphs (glyph 0 is .notdef)
	Names []string // nil: outlines without glyph names; "" = unnamed glyph
	Runes map[rune]glyph.ID
}

func (fs *fontSpec) String() string {
	var rr []int
	for r := range fs.Runes {
		rr = append(rr, int(r))
	}
	sort.Ints(rr)
	var sb strings.Builder
	fmt.Fprintf(&sb, "font{%s n=%d names=[", fs.Kind, fs.N)
	for i, n := range fs.Names {
		// glyphs with a generated default name are left out (big fonts)
		if n == "" {
			fmt.Fprintf(&sb, "%d:- ", i)
		} else if n != fmt.Sprintf("glyph%05d", i) {
			fmt.Fprintf(&sb, "%d:%s ", i, n)
		}
	}
	sb.WriteString("] cmap={")
	for i, r := range rr {
		if i > 0 {
			sb.WriteByte(' ')
		}
		fmt.Fprintf(&sb, "U+%04X:%d", r, fs.Runes[rune(r)])
	}
	sb.WriteString("}}")
	return sb.String()
}

// build constructs the font through the public API only.
func (fs *fontSpec) build() *sfnt.Font {
	f := &sfnt.Font{
		FamilyName: "C19",
		UnitsPerEm: 1000,
		Ascent:     800,
		Descent:    -200,
	}
	if fs.Names != nil {
		o := &cff.Outlines{
			Private:  []*type1.PrivateDict{{}},
			FDSelect: func(glyph.ID) int { return 0 },
		}
		for i := 0; i < fs.N; i++ {
			o.Glyphs = append(o.Glyphs, cff.NewGlyph(fs.Names[i], 500))
		}
		f.Outlines = o
	} else {
		f.Outlines = &glyf.Outlines{
			Glyphs: make(glyf.Glyphs, fs.N),
			Widths: make([]funit.Int16, fs.N),
		}
	}
	big := false
	for r := range fs.Runes {
		if r > 0xFFFF {
			big = true
		}
	}
	if big {
		m := cmap.Format12{}
		for r, g := range fs.Runes {
			m[uint32(r)] = g
		}
		f.InstallCMap(m)
	} else {
		m := cmap.Format4{}
		for r, g := range fs.Runes {
			m[uint16(r)] = g
		}
		f.InstallCMap(m)
	}
	return f
}
