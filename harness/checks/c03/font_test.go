package c03

import (
	"bytes"
	"fmt"
	"strings"
	"testing"

	"golang.org/x/image/font"
	xsfnt "golang.org/x/image/font/sfnt"
	"golang.org/x/image/math/fixed"
	"pgregory.net/rapid"

	"seehuhn.de/go/sfnt"
	"seehuhn.de/go/sfnt/cff"
	"seehuhn.de/go/sfnt/glyf"
	"seehuhn.de/go/sfnt/glyph"
	genfont "verif/harness/gen/font"
	"verif/harness/guard"
	"verif/harness/ref/refglyf"
	"verif/harness/ref/refsfnt"
	"verif/harness/stats"
)

type seg struct {
	op   byte // M L Q C
	args [6]int
}

func (s seg) String() string {
	n := map[byte]int{'M': 2, 'L': 2, 'Q': 4, 'C': 6}[s.op]
	return fmt.Sprintf("%c%v", s.op, s.args[:n])
}

// xSegments converts x/image segments (at ppem = upm/64: font units, y down)
// to y up.
func xSegments(ss xsfnt.Segments) []seg {
	var out []seg
	for _, s := range ss {
		var r seg
		switch s.Op {
		case xsfnt.SegmentOpMoveTo:
			r.op = 'M'
		case xsfnt.SegmentOpLineTo:
			r.op = 'L'
		case xsfnt.SegmentOpQuadTo:
			r.op = 'Q'
		case xsfnt.SegmentOpCubeTo:
			r.op = 'C'
		}
		for i := 0; i < 3; i++ {
			r.args[2*i] = int(s.Args[i].X)
			r.args[2*i+1] = -int(s.Args[i].Y)
		}
		n := map[byte]int{'M': 2, 'L': 2, 'Q': 4, 'C': 6}[r.op]
		for i := n; i < 6; i++ {
			r.args[i] = 0
		}
		out = append(out, r)
	}
	return out
}

// expectCFF renders a cff.Glyph the way a Type 2 rasteriser sees it:
// every subpath is closed with a line back to its start if necessary.
func expectCFF(g *cff.Glyph) ([]seg, bool) {
	var out []seg
	q := func(v float64) (int, bool) {
		// x/image keeps integer coordinates only: abstain on fractions
		if v != float64(int(v)) {
			return 0, false
		}
		return int(v), true
	}
	open := false
	var sx, sy, cx, cy int
	closePath := func() {
		if open && (cx != sx || cy != sy) {
			out = append(out, seg{op: 'L', args: [6]int{sx, sy}})
		}
	}
	for _, c := range g.Cmds {
		var a [6]int
		for i, v := range c.Args {
			if i >= 6 {
				return nil, false
			}
			x, ok := q(v)
			if !ok {
				return nil, false
			}
			a[i] = x
		}
		switch c.Op {
		case cff.OpMoveTo:
			closePath()
			out = append(out, seg{op: 'M', args: [6]int{a[0], a[1]}})
			sx, sy, cx, cy = a[0], a[1], a[0], a[1]
			open = true
		case cff.OpLineTo:
			out = append(out, seg{op: 'L', args: [6]int{a[0], a[1]}})
			cx, cy = a[0], a[1]
		case cff.OpCurveTo:
			out = append(out, seg{op: 'C', args: a})
			cx, cy = a[4], a[5]
		default:
			return nil, false
		}
	}
	closePath()
	return out, true
}

// expectPolyline renders TrueType contours whose points are all on-curve.
// Returns ok=false when the glyph has off-curve points or degenerate
// contours (the conversion is then not fixed by the specification alone).
func expectPolyline(cc [][]genfont.Pt) ([]seg, bool) {
	var out []seg
	for _, c := range cc {
		if len(c) < 2 {
			return nil, false
		}
		for i, p := range c {
			if !p.On {
				return nil, false
			}
			op := byte('L')
			if i == 0 {
				op = 'M'
			}
			out = append(out, seg{op: op, args: [6]int{int(p.X), int(p.Y)}})
		}
		out = append(out, seg{op: 'L', args: [6]int{int(c[0].X), int(c[0].Y)}})
	}
	return out, true
}

func segsEqual(a, b []seg) bool {
	if len(a) != len(b) {
		return false
	}
	for i := range a {
		if a[i] != b[i] {
			return false
		}
	}
	return true
}

// glyphData returns the encoded body of a simple glyph.
func glyphData(g *glyf.Glyph) ([]byte, bool) {
	if g == nil {
		return nil, false
	}
	sg, ok := g.Data.(glyf.SimpleGlyph)
	if !ok {
		return nil, false
	}
	return sg.Encoded, true
}

func isUnsupported(err error) bool {
	return err != nil && strings.Contains(err.Error(), "unsupported")
}

func TestC03Font(t *testing.T) {
	o := genfont.Opts{MaxGlyphs: 40}
	if stats.Thorough() {
		o.MaxGlyphs = 400
	}
	rapid.Check(t, func(t *rapid.T) {
		c := genfont.Gen(o).Draw(t, "font")
		f := c.Font
		if go_, ok := f.Outlines.(*glyf.Outlines); ok && len(go_.Names) > 2 && rapid.IntRange(0, 5).Draw(t, "trailingUnnamed") == 0 {
			// the last glyphs of the font have no name (the post table still
			// has an entry for every glyph)
			for k := rapid.IntRange(1, min(3, len(go_.Names)-2)).Draw(t, "nUnnamed"); k > 0; k-- {
				go_.Names[len(go_.Names)-k] = ""
			}
			c.Labels = append(c.Labels, "tt-trailing-glyphs-unnamed")
		}
		variant := rapid.IntRange(0, 2).Draw(t, "writer")
		var buf bytes.Buffer
		var err error
		var n int64 = -1
		what := "Write"
		pn := guard.Try(func() {
			switch {
			case variant == 1 && f.IsGlyf():
				what = "WriteTrueTypePDF"
				n, err = f.WriteTrueTypePDF(&buf)
			case variant == 1 && f.IsCFF():
				what = "WriteOpenTypeCFFPDF"
				err = f.WriteOpenTypeCFFPDF(&buf)
			default:
				n, err = f.Write(&buf)
			}
		})
		if pn != nil {
			t.Fatalf("%s panicked: %s\n%s", what, pn, c)
		}
		if err != nil {
			t.Fatalf("%s failed: %v\n%s", what, err, c)
		}
		out := buf.Bytes()
		if n >= 0 && n != int64(len(out)) {
			t.Fatalf("%s returned %d but wrote %d bytes", what, n, len(out))
		}
		rf, perr := refsfnt.Parse(out)
		if perr != nil {
			t.Fatalf("%s output: %v\n%s", what, perr, c)
		}
		if errs := rf.Validate(); len(errs) > 0 {
			t.Fatalf("%s output is not a well-formed container: %v\n%s", what, errs, c)
		}
		labels := append([]string{what}, c.Labels...)
		// glyph data as an independent reader sees it: loca entries (stored
		// halved in the short format) must be non-decreasing, inside glyf,
		// one more than maxp.numGlyphs, and every record must be the glyph
		// the font value holds
		if o, ok := f.Outlines.(*glyf.Outlines); ok {
			head, _ := rf.Table("head")
			maxpT, _ := rf.Table("maxp")
			gl, _ := rf.Table("glyf")
			lo, okL := rf.Table("loca")
			if !okL || len(head) < 54 || len(maxpT) < 6 {
				t.Fatalf("%s output of a TrueType font lacks loca/head/maxp\n%s", what, c)
			}
			format := int(head[50])<<8 | int(head[51])
			recs, offs, err := refglyf.Parse(gl, lo, format)
			if err != nil {
				t.Fatalf("%s output: glyf/loca (indexToLocFormat %d, glyf %d bytes, loca %d bytes) not readable by the reference walker: %v\n%s", what, format, len(gl), len(lo), err, c)
			}
			if ng := int(maxpT[4])<<8 | int(maxpT[5]); ng != len(recs) || ng != len(o.Glyphs) {
				t.Fatalf("%s output: maxp.numGlyphs=%d, loca describes %d glyphs, font has %d\n%s", what, ng, len(recs), len(o.Glyphs), c)
			}
			if offs[len(offs)-1] != len(gl) {
				t.Fatalf("%s output: last loca entry %d != glyf length %d\n%s", what, offs[len(offs)-1], len(gl), c)
			}
			for gid, g := range o.Glyphs {
				if (g == nil) != (recs[gid] == nil) {
					t.Fatalf("%s output: glyph %d blank=%v in the font, blank=%v in the file\n%s", what, gid, g == nil, recs[gid] == nil, c)
				}
				if sg, ok := glyphData(g); ok && !bytes.Equal(recs[gid].Body, sg) {
					t.Fatalf("%s output: simple glyph %d: %d body bytes in the file, %d in the font value\n%s", what, gid, len(recs[gid].Body), len(sg), c)
				}
			}
			labels = append(labels, fmt.Sprintf("loca-format-%d", format))
		}
		if what != "Write" {
			stats.CaseIn("font", stats.Hash(out), true, func() string { return what + " of " + c.String() }, labels...)
			return
		}

		outlineChecked, outlineAbstain := crossCheck(t, c, out)
		if outlineChecked < 0 {
			labels = append(labels, "ximage-abstains")
			stats.CaseIn("font", stats.Hash(out), true, func() string { return c.String() }, labels...)
			return
		}
		stats.LabelN("font", "outlines-compared", int64(outlineChecked))
		stats.LabelN("font", "outlines-abstained", int64(outlineAbstain))
		stats.CaseIn("font", stats.Hash(out), true, func() string { return c.String() }, labels...)
	})
}

type fataler interface {
	Fatalf(format string, args ...any)
}

// crossCheck reads a complete font file with the independent implementation
// (x/image) and compares glyph count, units per em, character mapping,
// advance widths, glyph names and outlines with the font value.  It returns
// -1 when x/image abstains from the whole file.
func crossCheck(t fataler, c *genfont.Case, out []byte) (outlineChecked, outlineAbstain int) {
	f := c.Font
	// independent implementation
	xf, xerr := xsfnt.Parse(out)
	if xerr != nil {
		if len(f.CMapTable) == 0 || isUnsupported(xerr) {
			return -1, 0
		}
		t.Fatalf("x/image rejects Write output: %v\n%s\n%s", xerr, c, genfont.Dump(f))
	}
	var xb xsfnt.Buffer
	if xf.NumGlyphs() != f.NumGlyphs() {
		t.Fatalf("x/image NumGlyphs=%d want %d\n%s", xf.NumGlyphs(), f.NumGlyphs(), c)
	}
	if int(xf.UnitsPerEm()) != int(f.UnitsPerEm) {
		t.Fatalf("x/image UnitsPerEm=%d want %d\n%s", xf.UnitsPerEm(), f.UnitsPerEm, c)
	}
	// character mapping: expected from the generated subtables via the
	// library's documented preference is checked in C09; here the two
	// implementations must agree on every rune any subtable maps.
	best, _ := f.CMapTable.GetBest()
	probe := []rune{0, 'A', 'H', 'x', 0x20, 0xFFFF, 0x10000, 0x10FFFF}
	if best != nil {
		lo, hi := best.CodeRange()
		probe = append(probe, lo, hi, lo-1, hi+1)
		for _, r := range []rune{'a', 'b', 'f', 'i', 'l', 'é', 'Ω', 0x0301, 0x2014, 0xFFFD, 0xFB01} {
			probe = append(probe, r)
		}
		for r := rune(0x20); r < 0x180; r++ {
			probe = append(probe, r)
		}
	}
	// ppem = upm/64 pixels: one 26.6 unit per font unit, no rounding, no overflow in x/image's 32-bit scaling
	ppem := fixed.Int26_6(int(f.UnitsPerEm))
	if best != nil {
		for _, r := range probe {
			if r < 0 {
				continue
			}
			want := best.Lookup(r)
			got, err := xf.GlyphIndex(&xb, r)
			if err != nil {
				t.Fatalf("x/image GlyphIndex(%#x): %v", r, err)
			}
			if glyph.ID(got) != want {
				t.Fatalf("GlyphIndex(%#x): x/image %d, font %d\n%s", r, got, want, c)
			}
		}
	}
	ww := f.Widths()
	for gid := 0; gid < f.NumGlyphs(); gid++ {
		adv, err := xf.GlyphAdvance(&xb, xsfnt.GlyphIndex(gid), ppem, font.HintingNone)
		if err != nil {
			t.Fatalf("x/image GlyphAdvance(%d): %v", gid, err)
		}
		if int(adv) != int(ww[gid]) {
			t.Fatalf("GlyphAdvance(%d): x/image %d, font %v\n%s", gid, adv, ww[gid], c)
		}
	}
	switch o := f.Outlines.(type) {
	case *glyf.Outlines:
		if o.Names != nil {
			for gid := range o.Glyphs {
				nm, err := xf.GlyphName(&xb, xsfnt.GlyphIndex(gid))
				if err != nil {
					t.Fatalf("x/image GlyphName(%d): %v\n%s", gid, err, c)
				}
				if nm != o.Names[gid] {
					t.Fatalf("GlyphName(%d): x/image %q, font %q\n%s", gid, nm, o.Names[gid], c)
				}
			}
		}
		for gid, g := range o.Glyphs {
			if g == nil {
				ss, err := xf.LoadGlyph(&xb, xsfnt.GlyphIndex(gid), ppem, nil)
				if err != nil || len(ss) != 0 {
					t.Fatalf("blank glyph %d: x/image gives %d segments, err=%v\n%s", gid, len(ss), err, c)
				}
				continue
			}
			if _, ok := g.Data.(glyf.SimpleGlyph); !ok {
				outlineAbstain++
				continue
			}
			// every simple glyph must load; the segments are compared
			// where x/image's integer arithmetic is exact
			ss, err := xf.LoadGlyph(&xb, xsfnt.GlyphIndex(gid), ppem, nil)
			if err != nil {
				if isUnsupported(err) {
					outlineAbstain++
					continue
				}
				t.Fatalf("x/image LoadGlyph(%d): %v\n%s", gid, err, c)
			}
			want, ok := expectPolyline(c.Points[gid])
			if !ok {
				outlineAbstain++
				continue
			}
			if got := xSegments(ss); !segsEqual(got, want) {
				t.Fatalf("glyph %d outline: x/image %v, generated %v\n%s", gid, got, want, c)
			}
			outlineChecked++
		}
	case *cff.Outlines:
		for gid, g := range o.Glyphs {
			want, ok := expectCFF(g)
			if !ok {
				outlineAbstain++
				continue
			}
			ss, err := xf.LoadGlyph(&xb, xsfnt.GlyphIndex(gid), ppem, nil)
			if err != nil {
				if isUnsupported(err) {
					outlineAbstain++
					continue
				}
				t.Fatalf("x/image LoadGlyph(%d): %v\n%s\n%s", gid, err, c, g)
			}
			if got := xSegments(ss); !segsEqual(got, want) {
				t.Fatalf("glyph %d outline: x/image %v, generated %v\n%s\n%s", gid, got, want, c, g)
			}
			outlineChecked++
		}
	}
	return outlineChecked, outlineAbstain
}

var _ = sfnt.Read
