// C03: written files are well-formed sfnt containers.
package c03

import (
	"bytes"
	"fmt"
	"sort"
	"testing"

	"pgregory.net/rapid"

	"seehuhn.de/go/sfnt/header"
	"verif/harness/guard"
	"verif/harness/ref/refsfnt"
	"verif/harness/stats"
)

func TestMain(m *testing.M) { stats.MainExit(m) }

var knownTags = []string{"head", "hhea", "maxp", "OS/2", "hmtx", "LTSH", "VDMX", "hdmx", "cmap", "fpgm", "prep", "cvt ",
	"loca", "glyf", "kern", "name", "post", "gasp", "DSIG", "CFF ", "GSUB", "GPOS", "GDEF", "BASE"}

func genTag() *rapid.Generator[string] {
	return rapid.OneOf(
		rapid.SampledFrom(knownTags),
		rapid.Custom(func(t *rapid.T) string {
			b := make([]byte, 4)
			for i := range b {
				b[i] = byte(rapid.IntRange(0x20, 0x7e).Draw(t, "tagByte"))
			}
			return string(b)
		}),
	)
}

func genLen() *rapid.Generator[int] {
	return rapid.OneOf(rapid.IntRange(0, 9), rapid.IntRange(0, 70), rapid.IntRange(0, 5000), rapid.SampledFrom([]int{0, 1, 2, 3, 4, 5, 6, 7, 8}))
}

type tcase struct {
	scaler uint32
	tables map[string][]byte
	nilTag []string
	shared bool
}

func (c *tcase) String() string {
	tags := make([]string, 0, len(c.tables))
	for k := range c.tables {
		tags = append(tags, k)
	}
	sort.Strings(tags)
	s := fmt.Sprintf("scaler=%#x", c.scaler)
	for _, k := range tags {
		if c.tables[k] == nil {
			s += fmt.Sprintf(" %q:nil", k)
		} else {
			s += fmt.Sprintf(" %q:%d", k, len(c.tables[k]))
		}
	}
	return s
}

func genCase(t *rapid.T) *tcase {
	c := &tcase{tables: map[string][]byte{}}
	c.scaler = rapid.SampledFrom([]uint32{0x00010000, 0x4F54544F, 0x74727565}).Draw(t, "scaler")
	n := rapid.OneOf(rapid.IntRange(1, 6), rapid.IntRange(1, 40)).Draw(t, "nTables")
	for i := 0; i < n; i++ {
		tag := genTag().Draw(t, "tag")
		if tag == "head" {
			continue
		}
		l := genLen().Draw(t, "len")
		seed := rapid.Byte().Draw(t, "fill")
		d := make([]byte, l)
		for j := range d {
			d[j] = seed + byte(j*7) + byte(j>>8)
		}
		c.tables[tag] = d
	}
	if rapid.Bool().Draw(t, "hasHead") {
		l := rapid.SampledFrom([]int{54, 54, 55, 56, 57, 60}).Draw(t, "headLen")
		d := make([]byte, l)
		for j := range d {
			d[j] = byte(rapid.IntRange(0, 255).Draw(t, "headByte"))
		}
		c.tables["head"] = d
	}
	if rapid.IntRange(0, 3).Draw(t, "sharedBacking") == 0 {
		// the caller's tables are adjacent sub-slices of one buffer (as when
		// they were cut out of a file image): Write must not write into them
		tags := make([]string, 0, len(c.tables))
		total := 0
		for k, v := range c.tables {
			tags = append(tags, k)
			total += len(v)
		}
		sort.Strings(tags)
		order := rapid.Permutation(tags).Draw(t, "backingOrder")
		buf := make([]byte, 0, total+8)
		for _, k := range order {
			buf = append(buf, c.tables[k]...)
		}
		pos := 0
		for _, k := range order {
			l := len(c.tables[k])
			c.tables[k] = buf[pos : pos+l] // capacity reaches into the next table
			pos += l
		}
		c.shared = true
	}
	// the documented "nil data => table not written" case
	if !stats.IsListed("C03", "nil-table-counted") {
		k := rapid.SampledFrom([]int{0, 0, 1, 2}).Draw(t, "nNil")
		for i := 0; i < k; i++ {
			tag := genTag().Draw(t, "nilTag")
			if _, ok := c.tables[tag]; ok {
				continue
			}
			c.tables[tag] = nil
			c.nilTag = append(c.nilTag, tag)
		}
	} else {
		stats.Excluded("nil-table-counted")
	}
	return c
}

func TestC03Container(t *testing.T) {
	rapid.Check(t, func(t *rapid.T) {
		c := genCase(t)
		// Write patches head in place: keep a copy of the input
		in := map[string][]byte{}
		nonNil := 0
		for k, v := range c.tables {
			if v != nil {
				in[k] = append([]byte{}, v...)
				nonNil++
			}
		}
		var buf bytes.Buffer
		var n int64
		var err error
		if pn := guard.Try(func() { n, err = header.Write(&buf, c.scaler, c.tables) }); pn != nil {
			t.Fatalf("header.Write panicked: %s\n%s", pn, c)
		}
		if err != nil {
			t.Fatalf("header.Write failed: %v\n%s", err, c)
		}
		out := buf.Bytes()
		if n != int64(len(out)) {
			t.Fatalf("header.Write returned %d, wrote %d bytes\n%s", n, len(out), c)
		}
		f, perr := refsfnt.Parse(out)
		if perr != nil {
			t.Fatalf("independent parser: %v\n%s", perr, c)
		}
		if f.Scaler != c.scaler {
			t.Fatalf("scaler type %#x, want %#x", f.Scaler, c.scaler)
		}
		if f.NumTables != nonNil {
			t.Fatalf("numTables=%d but %d non-nil tables were given\n%s", f.NumTables, nonNil, c)
		}
		if errs := f.Validate(); len(errs) > 0 {
			t.Fatalf("container not well formed: %v\n%s", errs, c)
		}
		got := f.Tables()
		if len(got) != len(in) {
			t.Fatalf("independent parser sees %d tables, want %d\n%s", len(got), len(in), c)
		}
		for k, v := range in {
			w, ok := got[k]
			if !ok {
				t.Fatalf("table %q missing from output\n%s", k, c)
			}
			if k == "head" {
				v = append([]byte{}, v...)
				w = append([]byte{}, w...)
				copy(v[8:12], []byte{0, 0, 0, 0})
				copy(w[8:12], []byte{0, 0, 0, 0})
			}
			if !bytes.Equal(v, w) {
				t.Fatalf("table %q changed\n%s", k, c)
			}
		}
		// the library's own reader returns exactly the tables written
		if nonNil > 0 {
			var info *header.Info
			if pn := guard.Try(func() { info, err = header.Read(bytes.NewReader(out)) }); pn != nil {
				t.Fatalf("header.Read panicked: %s\n%s", pn, c)
			}
			if err != nil {
				t.Fatalf("header.Read rejects header.Write output: %v\n%s", err, c)
			}
			if info.ScalerType != c.scaler || len(info.Toc) != len(in) {
				t.Fatalf("header.Read: scaler %#x, %d tables; want %#x, %d\n%s", info.ScalerType, len(info.Toc), c.scaler, len(in), c)
			}
			for k, v := range in {
				w, err := info.ReadTableBytes(bytes.NewReader(out), k)
				if err != nil {
					t.Fatalf("ReadTableBytes(%q): %v\n%s", k, err, c)
				}
				if k == "head" {
					v = append([]byte{}, v...)
					w = append([]byte{}, w...)
					copy(v[8:12], []byte{0, 0, 0, 0})
					copy(w[8:12], []byte{0, 0, 0, 0})
				}
				if !bytes.Equal(v, w) {
					t.Fatalf("ReadTableBytes(%q) differs from what was written\n%s", k, c)
				}
			}
		}
		odd := false
		for _, v := range in {
			if len(v)%4 != 0 {
				odd = true
			}
		}
		// the caller's data is untouched (except head.checkSumAdjustment)
		for k, v := range in {
			w := c.tables[k]
			if k == "head" {
				v, w = append([]byte{}, v...), append([]byte{}, w...)
				copy(v[8:12], []byte{0, 0, 0, 0})
				copy(w[8:12], []byte{0, 0, 0, 0})
			}
			if !bytes.Equal(v, w) {
				t.Fatalf("header.Write modified the caller's table %q\n%s", k, c)
			}
		}
		var labels []string
		if c.shared {
			labels = append(labels, "shared-backing-array")
		}
		if len(c.nilTag) > 0 {
			labels = append(labels, "nil-table")
		}
		if _, ok := in["head"]; ok {
			labels = append(labels, "with-head")
		}
		if nonNil > 16 {
			labels = append(labels, ">16-tables")
		}
		stats.CaseIn("container", stats.Hash(out), nonNil >= 3 && odd, func() string { return c.String() }, labels...)
	})
}
