package c03

import (
	"bytes"
	"fmt"
	"strings"
	"testing"

	"pgregory.net/rapid"
	"seehuhn.de/go/postscript/funit"
	"seehuhn.de/go/sfnt/cff"

	genfont "verif/harness/gen/font"
	"verif/harness/guard"
	"verif/harness/ref/refcffwalk"
	"verif/harness/ref/refsfnt"
	"verif/harness/stats"
)

// indexBodies gives the sizes of the data sections of the INDEX structures
// of a CFF table, as the reference walker lays them out.  It is only used for
// the statistics; ok=false when the walker cannot follow the table.
func indexBodies(tab []byte) (sizes map[string]int, ok bool) {
	p, err := refcffwalk.ParseLayout(tab)
	if err != nil {
		return nil, false
	}
	sizes = map[string]int{}
	for _, e := range p.Layout.Extents {
		offSize, isIndex := p.Layout.OffSize[e.Name]
		if !isIndex || offSize == 0 || e.Start+2 > len(tab) {
			continue
		}
		count := int(tab[e.Start])<<8 | int(tab[e.Start+1])
		sizes[e.Name] = e.End - e.Start - 3 - (count+1)*offSize
	}
	return sizes, true
}

// TestC03CFFSizeSweep writes one CFF-based font again and again while one
// string (the copyright notice, which lands in the String INDEX of the CFF
// table) or one glyph (a polyline of k segments, which lands in the
// CharStrings INDEX) grows byte by byte, so that the data sections of these
// structures pass through every size up to a few hundred bytes - the offset
// width of an INDEX changes between 254 and 255 bytes of data.  Every file
// must be a well-formed container and the independent implementation must
// report the same font.
func TestC03CFFSizeSweep(t *testing.T) {
	rapid.Check(t, func(t *rapid.T) {
		c := genfont.Gen(genfont.Opts{Kind: genfont.KindCFF, MaxGlyphs: 5, NoWideCmap: true}).
			Filter(func(c *genfont.Case) bool { return len(c.Font.CMapTable) > 0 }).Draw(t, "font")
		f := c.Font
		o, ok := f.Outlines.(*cff.Outlines)
		if !ok {
			t.Fatalf("generator gave %T for KindCFF", f.Outlines)
		}
		mode := rapid.SampledFrom([]string{"copyright", "glyph"}).Draw(t, "mode")
		from := rapid.IntRange(0, 60).Draw(t, "from")
		n := 300
		hit := map[string]bool{}
		for k := from; k < from+n; k++ {
			switch mode {
			case "copyright":
				f.Copyright = strings.Repeat("c", k)
			case "glyph":
				// a closed polyline of k/2 segments; every second size
				// has one two-byte operand so that all byte counts occur
				g := cff.NewGlyph(o.Glyphs[len(o.Glyphs)-1].Name, o.Glyphs[len(o.Glyphs)-1].Width)
				g.MoveTo(0, 0)
				x, y := funit.Int16(0), funit.Int16(0)
				for j := 0; j < k/2; j++ {
					d := funit.Int16(1 + j%5)
					if j == 0 && k%2 == 1 {
						d = 300
					}
					if j%2 == 0 {
						x += d
					} else {
						y += d
					}
					g.LineTo(float64(x), float64(y))
				}
				o.Glyphs[len(o.Glyphs)-1] = g
			}
			var buf bytes.Buffer
			var err error
			pn := guard.Try(func() { _, err = f.Write(&buf) })
			if pn != nil {
				t.Fatalf("Write panicked (%s size step %d): %s\n%s", mode, k, pn, c)
			}
			if err != nil {
				t.Fatalf("Write failed (%s size step %d): %v\n%s", mode, k, err, c)
			}
			out := buf.Bytes()
			rf, perr := refsfnt.Parse(out)
			if perr != nil {
				t.Fatalf("Write output (%s size step %d): %v\n%s", mode, k, perr, c)
			}
			if errs := rf.Validate(); len(errs) > 0 {
				t.Fatalf("Write output (%s size step %d) is not a well-formed container: %v\n%s", mode, k, errs, c)
			}
			tab, _ := rf.Table("CFF ")
			var labels []string
			if sizes, ok := indexBodies(tab); ok {
				for name, sz := range sizes {
					if sz >= 254 && sz <= 256 {
						l := fmt.Sprintf("%s-INDEX-data-%d-bytes", name, sz)
						labels = append(labels, l)
						hit[l] = true
					}
				}
			}
			chk, _ := crossCheck(sweepT{t, fmt.Sprintf("%s size step %d", mode, k)}, c, out)
			if chk < 0 {
				labels = append(labels, "ximage-abstains")
			}
			stats.CaseIn("sweep", stats.Hash(out), len(labels) > 0 && chk >= 0, func() string {
				return fmt.Sprintf("%s size step %d of %s", mode, k, c)
			}, append(labels, "sweep-"+mode)...)
		}
	})
}

// sweepT prefixes failure messages with the position in the sweep.
type sweepT struct {
	t    *rapid.T
	what string
}

func (s sweepT) Fatalf(format string, args ...any) {
	s.t.Fatalf("%s: "+format, append([]any{s.what}, args...)...)
}
