// C11: TrueType glyph data round-trips and decodes as the specification says.
//
// Oracles (all independent of /repo/glyf):
//
//   - refglyf encoder → bytes → glyf.Decode → compared field by field with the
//     model the bytes were generated from;
//   - glyf.Glyphs.Encode → refglyf.Parse (strict spec decoder) → compared with
//     the model, plus loca invariants (format 0/1, non-decreasing, even,
//     inside the glyf data, short format only if the offsets fit);
//   - (*SimpleGlyph).Decode → compared with the generated points and with
//     refglyf.DecodeSimple of the same bytes;
//   - Components / FixComponents → compared with the model's component list
//     and with refglyf.Parse of the re-encoded glyph.
package c11

import (
	"bytes"
	"fmt"
	"sort"
	"testing"

	"pgregory.net/rapid"

	"seehuhn.de/go/sfnt/glyf"
	"seehuhn.de/go/sfnt/glyph"
	"verif/harness/guard"
	"verif/harness/ref/refglyf"
	"verif/harness/stats"
)

func TestMain(m *testing.M) { stats.MainExit(m) }

// normNC is the numberOfContours value the library writes for the model glyph.
func normNC(g *refglyf.Glyph) int16 {
	if g.Composite != nil {
		return -1
	}
	return g.NumContours
}

// cmpLib compares a library glyph with the model.
func cmpLib(lg *glyf.Glyph, m *mglyph) string {
	if m == nil {
		if lg != nil {
			return fmt.Sprintf("empty glyph decoded as %+v", *lg)
		}
		return ""
	}
	if lg == nil {
		return "non-empty glyph decoded as nil"
	}
	g := m.g
	if int16(lg.LLx) != g.XMin || int16(lg.LLy) != g.YMin || int16(lg.URx) != g.XMax || int16(lg.URy) != g.YMax {
		return fmt.Sprintf("bbox %v, want [%d %d %d %d]", lg.Rect16, g.XMin, g.YMin, g.XMax, g.YMax)
	}
	switch d := lg.Data.(type) {
	case glyf.SimpleGlyph:
		if g.Simple == nil {
			return "composite glyph decoded as simple"
		}
		if d.NumContours != g.NumContours {
			return fmt.Sprintf("NumContours=%d want %d", d.NumContours, g.NumContours)
		}
		if !bytes.Equal(d.Encoded, g.Body) {
			return fmt.Sprintf("Encoded (%d bytes) differs from the generated description (%d bytes): got %s want %s",
				len(d.Encoded), len(g.Body), tailHex(d.Encoded), tailHex(g.Body))
		}
	case glyf.CompositeGlyph:
		if g.Composite == nil {
			return "simple glyph decoded as composite"
		}
		if len(d.Components) != len(g.Composite.Comps) {
			return fmt.Sprintf("%d components, want %d", len(d.Components), len(g.Composite.Comps))
		}
		for i, c := range d.Components {
			k := &g.Composite.Comps[i]
			ab, _ := k.ArgBytes()
			if uint16(c.Flags) != k.Flags || uint16(c.GlyphIndex) != k.Glyph || !bytes.Equal(c.Data, ab) {
				return fmt.Sprintf("component %d: flags=%#04x gid=%d data=%x, want flags=%#04x gid=%d data=%x",
					i, uint16(c.Flags), c.GlyphIndex, c.Data, k.Flags, k.Glyph, ab)
			}
		}
		if !bytes.Equal(d.Instructions, g.Composite.Instr) {
			return fmt.Sprintf("composite instructions: %d bytes %s, want %d bytes %s",
				len(d.Instructions), tailHex(d.Instructions), len(g.Composite.Instr), tailHex(g.Composite.Instr))
		}
		if g.Composite.HasInstr && d.Instructions == nil {
			return "composite with (empty) instruction block decoded with Instructions == nil"
		}
	default:
		return fmt.Sprintf("unexpected Data type %T", lg.Data)
	}
	return ""
}

func tailHex(b []byte) string {
	if len(b) <= 40 {
		return fmt.Sprintf("%x", b)
	}
	return fmt.Sprintf("…%x", b[len(b)-40:])
}

// cmpRef compares a glyph parsed by the reference decoder with the model.
func cmpRef(rg *refglyf.Glyph, m *mglyph) string {
	if m == nil {
		if rg != nil {
			return "empty glyph written with data"
		}
		return ""
	}
	if rg == nil {
		return "glyph written as empty"
	}
	g := m.g
	if rg.XMin != g.XMin || rg.YMin != g.YMin || rg.XMax != g.XMax || rg.YMax != g.YMax {
		return fmt.Sprintf("bbox [%d %d %d %d], want [%d %d %d %d]", rg.XMin, rg.YMin, rg.XMax, rg.YMax, g.XMin, g.YMin, g.XMax, g.YMax)
	}
	if rg.NumContours != normNC(g) {
		return fmt.Sprintf("numberOfContours=%d want %d", rg.NumContours, normNC(g))
	}
	if !bytes.Equal(rg.Body, g.Body) {
		return fmt.Sprintf("description (%d bytes) differs from the model (%d bytes): got %s want %s", len(rg.Body), len(g.Body), tailHex(rg.Body), tailHex(g.Body))
	}
	return ""
}

type encInfo struct {
	format  int
	total   int
	maxPad  int
	offsets []int
}

// checkEncoded verifies the output of Glyphs.Encode against the model.
func checkEncoded(enc *glyf.Encoded, set []*mglyph) (*encInfo, string) {
	if enc == nil {
		return nil, "Encode returned nil"
	}
	if enc.LocaFormat != 0 && enc.LocaFormat != 1 {
		return nil, fmt.Sprintf("LocaFormat=%d", enc.LocaFormat)
	}
	rgs, offs, err := refglyf.Parse(enc.GlyfData, enc.LocaData, int(enc.LocaFormat))
	if offs == nil {
		return nil, fmt.Sprintf("loca (format %d, %d bytes; glyf %d bytes): %v", enc.LocaFormat, len(enc.LocaData), len(enc.GlyfData), err)
	}
	if len(offs) != len(set)+1 {
		return nil, fmt.Sprintf("loca has %d entries for %d glyphs", len(offs), len(set))
	}
	for i, o := range offs {
		if o%2 != 0 {
			return nil, fmt.Sprintf("loca[%d]=%d is odd", i, o)
		}
	}
	if err != nil {
		return nil, fmt.Sprintf("reference decoder rejects the written data: %v", err)
	}
	info := &encInfo{format: int(enc.LocaFormat), total: len(enc.GlyfData), offsets: offs}
	for i, m := range set {
		if msg := cmpRef(rgs[i], m); msg != "" {
			return nil, fmt.Sprintf("written glyph %d [%d,%d): %s", i, offs[i], offs[i+1], msg)
		}
		if m != nil {
			if pad := offs[i+1] - offs[i] - recLen(m); pad > info.maxPad {
				info.maxPad = pad
			}
		}
	}
	return info, ""
}

// cmpInfo compares the result of SimpleGlyph.Decode with the model points.
func cmpInfo(gi *glyf.GlyphInfo, s *refglyf.Simple) string {
	if gi == nil {
		return "nil GlyphInfo"
	}
	if len(gi.Contours) != len(s.Contours) {
		return fmt.Sprintf("%d contours, want %d", len(gi.Contours), len(s.Contours))
	}
	idx := 0
	for i, c := range gi.Contours {
		w := s.Contours[i]
		if len(c) != len(w) {
			return fmt.Sprintf("contour %d has %d points, want %d", i, len(c), len(w))
		}
		for j, p := range c {
			if int16(p.X) != w[j].X || int16(p.Y) != w[j].Y || p.OnCurve != w[j].On {
				return fmt.Sprintf("contour %d point %d (#%d): got (%d,%d,on=%v) want (%d,%d,on=%v)",
					i, j, idx, p.X, p.Y, p.OnCurve, w[j].X, w[j].Y, w[j].On)
			}
			idx++
		}
	}
	if !bytes.Equal(gi.Instructions, s.Instr) {
		return fmt.Sprintf("instructions: %d bytes, want %d", len(gi.Instructions), len(s.Instr))
	}
	return ""
}

// refSelfCheck makes sure the reference decoder reads back what the
// reference encoder wrote (a disagreement is a harness bug, not a finding).
func refSelfCheck(m *mglyph) string {
	if m == nil {
		return ""
	}
	rg, err := refglyf.ParseGlyph(m.g.Bytes())
	if err != nil {
		return fmt.Sprintf("reference decoder rejects reference encoder output: %v", err)
	}
	if len(rg.Body) != len(m.g.Body) {
		return fmt.Sprintf("reference decoder used %d of %d bytes", len(rg.Body), len(m.g.Body))
	}
	if m.g.Simple != nil {
		a, b := rg.Simple, m.g.Simple
		if len(a.Contours) != len(b.Contours) || !bytes.Equal(a.Instr, b.Instr) {
			return "reference decoder: contour count / instructions differ"
		}
		for i := range a.Contours {
			if len(a.Contours[i]) != len(b.Contours[i]) {
				return "reference decoder: contour length differs"
			}
			for j := range a.Contours[i] {
				if a.Contours[i][j] != b.Contours[i][j] {
					return fmt.Sprintf("reference decoder: contour %d point %d: %v != %v", i, j, a.Contours[i][j], b.Contours[i][j])
				}
			}
		}
		if rg.Info.Overlap != m.enc.Overlap {
			return "reference decoder: overlap flag"
		}
	} else {
		a, b := rg.Composite, m.g.Composite
		if len(a.Comps) != len(b.Comps) || a.HasInstr != b.HasInstr || !bytes.Equal(a.Instr, b.Instr) {
			return "reference decoder: composite differs"
		}
		for i := range a.Comps {
			x, y := a.Comps[i], b.Comps[i]
			if x.Flags != y.Flags || x.Glyph != y.Glyph || x.Arg1 != y.Arg1 || x.Arg2 != y.Arg2 || fmt.Sprint(x.Transform) != fmt.Sprint(y.Transform) {
				return fmt.Sprintf("reference decoder: component %d: %+v != %+v", i, x, y)
			}
		}
	}
	return ""
}

// checkSimpleDecode runs (*SimpleGlyph).Decode on lg and compares with m.
func checkSimpleDecode(lg *glyf.Glyph, m *mglyph) string {
	sg, ok := lg.Data.(glyf.SimpleGlyph)
	if !ok {
		return "not a SimpleGlyph"
	}
	var gi *glyf.GlyphInfo
	var err error
	if pn := guard.Try(func() { gi, err = sg.Decode() }); pn != nil {
		return fmt.Sprintf("SimpleGlyph.Decode: %s", pn)
	}
	if err != nil {
		return fmt.Sprintf("SimpleGlyph.Decode: error %v on a valid glyph", err)
	}
	if msg := cmpInfo(gi, m.g.Simple); msg != "" {
		return "SimpleGlyph.Decode: " + msg
	}
	return ""
}

type labelSet map[string]bool

func (l labelSet) add(s string) { l[s] = true }
func (l labelSet) list() []string {
	var res []string
	for k := range l {
		res = append(res, k)
	}
	sort.Strings(res)
	return res
}

func glyphLabels(l labelSet, m *mglyph) {
	if m == nil {
		l.add("glyph:nil")
		return
	}
	if m.composite {
		l.add("glyph:composite")
		c := m.g.Composite
		if c.HasInstr {
			l.add("composite:instructions")
			if len(c.Instr) == 0 {
				l.add("composite:instructions-empty")
			}
			if len(c.Instr)%2 == 1 {
				l.add("composite:instructions-odd")
			}
			if c.Comps[len(c.Comps)-1].Flags&refglyf.WeHaveInstructions == 0 {
				l.add("composite:instructions-flag-not-on-last")
			}
		}
		if len(c.Comps) > 1 {
			l.add("composite:multi")
		}
		if m.g.NumContours != -1 {
			l.add("composite:numContours<-1")
		}
		for _, k := range c.Comps {
			sz := "args:"
			if k.Flags&refglyf.Arg1And2AreWords != 0 {
				sz += "words"
			} else {
				sz += "bytes"
			}
			if k.Flags&refglyf.ArgsAreXYValues != 0 {
				sz += "-xy"
			} else {
				sz += "-points"
			}
			l.add(sz)
			l.add(fmt.Sprintf("transform:%d", refglyf.NumTransform(k.Flags)))
		}
		return
	}
	l.add("glyph:simple")
	switch {
	case m.nContours == 0:
		l.add("simple:zero-contours")
	case m.nContours == 1:
		l.add("simple:1-contour")
	default:
		l.add("simple:>=2-contours")
	}
	if m.repeatFlags > 0 {
		l.add("flags:repeat")
	}
	if m.zeroRepeat {
		l.add("flags:repeat-count-0")
	}
	if m.longRun {
		l.add("flags:run-of-256")
	}
	for i, n := range m.modes {
		if n > 0 {
			l.add("coord:" + refglyf.Mode(i).String())
		}
	}
	if m.offCurve {
		l.add("points:off-curve")
	}
	if m.allOff {
		l.add("points:contour-without-on-curve")
	}
	if m.enc != nil && m.enc.Overlap {
		l.add("flags:overlap-simple")
	}
	if len(m.g.Simple.Instr) > 0 {
		l.add("simple:instructions")
	}
	if len(m.g.Body)%2 == 1 {
		l.add("simple:odd-length")
	}
	if m.nPoints >= 1000 {
		l.add("simple:>=1000-points")
	}
}

func isNT(m *mglyph) bool {
	return m != nil && (m.composite || (m.nContours >= 2 && m.repeatFlags > 0))
}

// describeSet renders a set for failure messages (bounded).
func describeSet(s *gset, focus int) string {
	var sb bytes.Buffer
	fmt.Fprintf(&sb, "set class=%s n=%d", s.class, len(s.glyphs))
	if len(s.glyphs) <= 12 {
		for i, m := range s.glyphs {
			fmt.Fprintf(&sb, "\n  glyph %d: %v", i, m)
		}
	} else if focus >= 0 && focus < len(s.glyphs) {
		fmt.Fprintf(&sb, "\n  glyph %d: %v", focus, s.glyphs[focus])
	}
	return sb.String()
}

// bytesPlan describes how the bytes direction lays out the tables.
type bytesPlan struct {
	align  int
	padPat []int
	format int
}

func genBytesPlan(t *rapid.T, s *gset) (bytesPlan, []byte, []byte) {
	var p bytesPlan
	p.align = rapid.SampledFrom([]int{2, 2, 2, 4, 4, 1}).Draw(t, "align")
	if rapid.IntRange(0, 2).Draw(t, "extraPad") == 0 {
		n := rapid.IntRange(1, 6).Draw(t, "padPatLen")
		for i := 0; i < n; i++ {
			p.padPat = append(p.padPat, rapid.SampledFrom([]int{0, 0, 1, 2, 3, 4, 7}).Draw(t, "pad"))
		}
	}
	recs := make([][]byte, len(s.glyphs))
	pad := make([]int, len(s.glyphs))
	cache := map[*mglyph][]byte{}
	total := 0
	odd := false
	for i, m := range s.glyphs {
		if m == nil {
			continue
		}
		b, ok := cache[m]
		if !ok {
			b = m.g.Bytes()
			cache[m] = b
		}
		recs[i] = b
		if p.padPat != nil {
			pad[i] = p.padPat[i%len(p.padPat)]
		}
		total += len(b) + pad[i]
		for total%p.align != 0 {
			total++
		}
		if total%2 != 0 {
			odd = true
		}
	}
	switch {
	case odd || total > 0x1FFFE:
		p.format = 1
	default:
		p.format = rapid.IntRange(0, 1).Draw(t, "locaFormat")
	}
	gd, ld, err := refglyf.Assemble(recs, pad, p.align, p.format)
	if err != nil {
		t.Fatalf("harness bug: assemble: %v", err)
	}
	return p, gd, ld
}

// fitBoundary appends filler glyphs so that the even-padded total is exactly
// target.  Returns false if that is impossible.
func fitBoundary(s *gset, target int, odd bool, seed byte) bool {
	cur := s.total2()
	rest := target - cur
	if rest < 12 || len(s.glyphs) >= 65530 {
		return false
	}
	for rest > 0 {
		n := rest
		if n > 60000 {
			n = 60000
			if rest-n < 12 {
				n = rest - 12
			}
		}
		s.glyphs = append(s.glyphs, fillerGlyph(n, odd, seed))
		rest -= n
	}
	return s.total2() == target
}

var boundaryTotals = []int{65532, 65534, 65536, 65538, 131068, 131070, 131072, 131074}

func TestC11Sets(t *testing.T) {
	thorough := stats.Thorough()
	rapid.Check(t, func(t *rapid.T) {
		s := genSet(t, thorough)
		labels := labelSet{}
		if len(s.glyphs) < 60000 && rapid.IntRange(0, 9).Draw(t, "fitBoundary") == 0 {
			target := rapid.SampledFrom(boundaryTotals).Draw(t, "targetTotal")
			if fitBoundary(s, target, rapid.Bool().Draw(t, "fillerOdd"), rapid.Byte().Draw(t, "fillerSeed")) {
				labels.add(fmt.Sprintf("boundary-total:%d", target))
			}
		}
		set := s.glyphs
		labels.add("set:" + s.class)
		fail := func(focus int, format string, a ...any) {
			t.Fatalf("%s\n%s", fmt.Sprintf(format, a...), describeSet(s, focus))
		}

		// distinct glyph models (large sets share them)
		seen := map[*mglyph]bool{}
		var distinct []*mglyph
		var firstAt []int
		nt := false
		for i, m := range set {
			if m == nil {
				labels.add("glyph:nil")
				continue
			}
			if !seen[m] {
				seen[m] = true
				distinct = append(distinct, m)
				firstAt = append(firstAt, i)
				glyphLabels(labels, m)
				nt = nt || isNT(m)
				if msg := refSelfCheck(m); msg != "" {
					fail(i, "harness bug: glyph %d: %s", i, msg)
				}
			}
		}

		// ---- value direction: Glyphs → Encode → (reference parse, Decode)
		gs := make(glyf.Glyphs, len(set))
		libOf := map[*mglyph]*glyf.Glyph{}
		for i, m := range set {
			if m == nil {
				continue
			}
			lg := libOf[m]
			if lg == nil {
				lg = toLib(m)
				libOf[m] = lg
			}
			gs[i] = lg
		}
		var enc *glyf.Encoded
		if pn := guard.Try(func() { enc = gs.Encode() }); pn != nil {
			fail(-1, "Glyphs.Encode: %s", pn)
		}
		info, msg := checkEncoded(enc, set)
		if msg != "" {
			fail(-1, "Glyphs.Encode: %s", msg)
		}
		var back glyf.Glyphs
		var err error
		if pn := guard.Try(func() { back, err = glyf.Decode(enc) }); pn != nil {
			fail(-1, "Decode(Encode(gs)): %s", pn)
		}
		if err != nil {
			fail(-1, "Decode(Encode(gs)): error %v (loca format %d, glyf %d bytes)", err, enc.LocaFormat, len(enc.GlyfData))
		}
		if len(back) != len(set) {
			fail(-1, "Decode(Encode(gs)) has %d glyphs, want %d", len(back), len(set))
		}
		for i, m := range set {
			if msg := cmpLib(back[i], m); msg != "" {
				fail(i, "Decode(Encode(gs)) glyph %d: %s", i, msg)
			}
		}
		// Encode must not have modified its input
		for i, m := range distinct {
			if msg := cmpLib(gs[firstAt[i]], m); msg != "" {
				fail(firstAt[i], "input glyph %d modified by Encode/Decode: %s", firstAt[i], msg)
			}
		}

		// ---- second round: the same glyph objects with their bounding boxes
		// edited in place are encoded again (an encoder that remembers a
		// glyph it has seen is stale now)
		if rapid.Bool().Draw(t, "secondRound") {
			edited := 0
			for _, m := range distinct {
				if m.g.XMin < 32767 {
					m.g.XMin++
					libOf[m].Rect16.LLx++
					edited++
				}
			}
			if edited > 0 {
				if pn := guard.Try(func() { enc = gs.Encode() }); pn != nil {
					fail(-1, "second Glyphs.Encode after in-place edits: %s", pn)
				}
				if info, msg = checkEncoded(enc, set); msg != "" {
					fail(-1, "second Glyphs.Encode after in-place edits: %s", msg)
				}
				if pn := guard.Try(func() { back, err = glyf.Decode(enc) }); pn != nil || err != nil {
					fail(-1, "Decode(second Encode): %v %v", err, pn)
				}
				for i, m := range set {
					if msg := cmpLib(back[i], m); msg != "" {
						fail(i, "second round (bounding boxes edited in place): Decode(Encode(gs)) glyph %d: %s", i, msg)
					}
				}
				labels.add("second-round-after-in-place-edit")
			}
		}

		// ---- bytes direction: reference encoder → Decode → Encode
		plan, gd, ld := genBytesPlan(t, s)
		in := &glyf.Encoded{GlyfData: gd, LocaData: ld, LocaFormat: int16(plan.format)}
		var dec glyf.Glyphs
		if pn := guard.Try(func() { dec, err = glyf.Decode(in) }); pn != nil {
			fail(-1, "Decode(reference tables, %+v): %s", plan, pn)
		}
		if err != nil {
			fail(-1, "Decode(reference tables, %+v; glyf %d bytes): error %v", plan, len(gd), err)
		}
		if len(dec) != len(set) {
			fail(-1, "Decode(reference tables) has %d glyphs, want %d", len(dec), len(set))
		}
		for i, m := range set {
			if msg := cmpLib(dec[i], m); msg != "" {
				fail(i, "Decode(reference tables, %+v) glyph %d: %s", plan, i, msg)
			}
		}
		var enc2 *glyf.Encoded
		if pn := guard.Try(func() { enc2 = dec.Encode() }); pn != nil {
			fail(-1, "Encode(Decode(reference tables)): %s", pn)
		}
		if enc2.LocaFormat != enc.LocaFormat || !bytes.Equal(enc2.GlyfData, enc.GlyfData) || !bytes.Equal(enc2.LocaData, enc.LocaData) {
			// equal glyph sets must encode equally; find out what differs
			if _, msg := checkEncoded(enc2, set); msg != "" {
				fail(-1, "Encode(Decode(reference tables, %+v)): %s", plan, msg)
			}
			fail(-1, "Encode(Decode(reference tables, %+v)) differs from Encode of the same glyph set built directly (format %d/%d, glyf %d/%d bytes)",
				plan, enc2.LocaFormat, enc.LocaFormat, len(enc2.GlyfData), len(enc.GlyfData))
		}

		// ---- point decoding and component lists on the decoded glyphs
		for i, m := range distinct {
			at := firstAt[i]
			if m.composite {
				var ids []glyph.ID
				if pn := guard.Try(func() { ids = dec[at].Components() }); pn != nil {
					fail(at, "Components: %s", pn)
				}
				if len(ids) != len(m.g.Composite.Comps) {
					fail(at, "glyph %d: Components() = %v, want %d entries", at, ids, len(m.g.Composite.Comps))
				}
				for j, id := range ids {
					if uint16(id) != m.g.Composite.Comps[j].Glyph {
						fail(at, "glyph %d: Components() = %v, entry %d should be %d", at, ids, j, m.g.Composite.Comps[j].Glyph)
					}
				}
				continue
			}
			if ids := dec[at].Components(); ids != nil {
				fail(at, "glyph %d: Components() of a simple glyph = %v, want nil", at, ids)
			}
			if msg := checkSimpleDecode(dec[at], m); msg != "" {
				fail(at, "glyph %d: %s", at, msg)
			}
			// and on the glyph that never went through Decode
			if msg := checkSimpleDecode(gs[at], m); msg != "" {
				fail(at, "glyph %d (not decoded before): %s", at, msg)
			}
		}
		if len(set) > 0 && set[0] == nil {
			var g0 *glyf.Glyph
			if ids := g0.Components(); ids != nil {
				fail(0, "Components() of a nil glyph = %v", ids)
			}
		}

		// ---- classification
		if info.format == 0 {
			labels.add("loca:short")
		} else {
			labels.add("loca:long")
		}
		switch {
		case info.total <= 0xFFFF:
			labels.add("total:<64K")
		case info.total <= 0x1FFFE:
			labels.add("total:64K..128K")
			nt = true
		default:
			labels.add("total:>128K")
			nt = true
		}
		if info.maxPad > 1 {
			labels.add("encode:pad>1")
		}
		labels.add(fmt.Sprintf("in:align-%d", plan.align))
		if plan.padPat != nil {
			labels.add("in:extra-padding")
		}
		if plan.format == 1 && len(gd) <= 0xFFFF {
			labels.add("in:long-loca-small-glyf")
		}
		if plan.format == 0 && len(gd) > 0xFFFF {
			labels.add("in:short-loca-64K..128K")
		}
		if plan.format != info.format {
			labels.add("in:format-differs-from-written")
		}
		stats.CaseIn("sets", stats.Hash(gd, ld, plan.format), nt, func() string {
			return fmt.Sprintf("%s; in=%+v glyf=%d bytes; written: loca format %d, glyf %d bytes", describeSet(s, 0), plan, len(gd), info.format, info.total)
		}, labels.list()...)
	})
}

// TestC11Simple concentrates on single simple glyphs: every encoding of the
// drawn points must decode to these points.
func TestC11Simple(t *testing.T) {
	rapid.Check(t, func(t *rapid.T) {
		size := rapid.SampledFrom([]int{szTiny, szTiny, szMed, szMed, szMed, szRuns, szRuns, szManyC}).Draw(t, "size")
		if stats.Thorough() && rapid.IntRange(0, 40).Draw(t, "bulk") == 0 {
			size = szBulk
		}
		m := genSimple(t, size)
		labels := labelSet{}
		glyphLabels(labels, m)
		if msg := refSelfCheck(m); msg != "" {
			t.Fatalf("harness bug: %s\n%v", msg, m)
		}
		// the glyph record followed by 0..5 padding bytes (arbitrary values are
		// legal: nothing in the format refers to them)
		npad := rapid.IntRange(0, 5).Draw(t, "pad")
		rec := m.g.Bytes()
		var pad []byte
		if npad > 0 {
			if rapid.Bool().Draw(t, "padZero") {
				pad = make([]byte, npad)
			} else {
				pad = rapid.SliceOfN(rapid.Byte(), npad, npad).Draw(t, "padBytes")
				labels.add("in:nonzero-padding")
			}
		}
		data := append(append([]byte{}, rec...), pad...)
		format := 1
		if len(data)%2 == 0 && len(data) <= 0x1FFFE && rapid.Bool().Draw(t, "short") {
			format = 0
		}
		gd, ld, err := refglyf.Assemble([][]byte{data}, nil, 1, format)
		if err != nil {
			t.Fatalf("harness bug: %v", err)
		}
		var dec glyf.Glyphs
		if pn := guard.Try(func() { dec, err = glyf.Decode(&glyf.Encoded{GlyfData: gd, LocaData: ld, LocaFormat: int16(format)}) }); pn != nil {
			t.Fatalf("Decode (pad=%x format=%d): %s\n%v", pad, format, pn, m)
		}
		if err != nil {
			t.Fatalf("Decode (pad=%x format=%d): error %v\n%v", pad, format, err, m)
		}
		if len(dec) != 1 {
			t.Fatalf("Decode: %d glyphs, want 1", len(dec))
		}
		if msg := cmpLib(dec[0], m); msg != "" {
			t.Fatalf("Decode (pad=%x format=%d): %s\n%v", pad, format, msg, m)
		}
		if msg := checkSimpleDecode(dec[0], m); msg != "" {
			t.Fatalf("(pad=%x format=%d) %s\n%v", pad, format, msg, m)
		}
		// round trip of the single glyph
		var enc *glyf.Encoded
		if pn := guard.Try(func() { enc = dec.Encode() }); pn != nil {
			t.Fatalf("Encode: %s\n%v", pn, m)
		}
		if _, msg := checkEncoded(enc, []*mglyph{m}); msg != "" {
			t.Fatalf("Encode: %s\n%v", msg, m)
		}
		nt := m.nContours >= 2 && m.repeatFlags > 0
		stats.CaseIn("simple", stats.Hash(rec, pad, format), nt, func() string { return m.String() }, labels.list()...)
	})
}

// TestC11Components checks Components and FixComponents.
func TestC11Components(t *testing.T) {
	rapid.Check(t, func(t *rapid.T) {
		numGlyphs := rapid.SampledFrom([]int{1, 5, 300, 65535}).Draw(t, "numGlyphs")
		var m *mglyph
		switch rapid.IntRange(0, 9).Draw(t, "kind") {
		case 0:
			m = nil
		case 1:
			m = genSimple(t, szTiny)
		default:
			m = genComposite(t, numGlyphs)
			m.g.NumContours = -1
		}
		labels := labelSet{}
		glyphLabels(labels, m)
		// through Decode or built directly
		var g *glyf.Glyph
		direct := rapid.Bool().Draw(t, "direct")
		if direct || m == nil {
			g = toLib(m)
			labels.add("built-directly")
		} else {
			gd, ld, err := refglyf.Assemble([][]byte{m.g.Bytes()}, nil, 2, 0)
			if err != nil {
				t.Fatalf("harness bug: %v", err)
			}
			var dec glyf.Glyphs
			if pn := guard.Try(func() { dec, err = glyf.Decode(&glyf.Encoded{GlyfData: gd, LocaData: ld}) }); pn != nil {
				t.Fatalf("Decode: %s\n%v", pn, m)
			}
			if err != nil || len(dec) != 1 {
				t.Fatalf("Decode: %v (%d glyphs)\n%v", err, len(dec), m)
			}
			g = dec[0]
			labels.add("decoded")
			if msg := cmpLib(g, m); msg != "" {
				t.Fatalf("Decode: %s\n%v", msg, m)
			}
		}
		// the map: every component id gets a drawn new id; plus unrelated keys
		newGid := map[glyph.ID]glyph.ID{}
		var want []uint16
		if m != nil && m.composite {
			for _, k := range m.g.Composite.Comps {
				id := glyph.ID(k.Glyph)
				if _, ok := newGid[id]; !ok {
					switch rapid.IntRange(0, 3).Draw(t, "mapKind") {
					case 0:
						newGid[id] = id
					case 1:
						newGid[id] = glyph.ID(rapid.SampledFrom([]uint16{0, 1, 255, 256, 0xffff}).Draw(t, "newGid"))
					default:
						newGid[id] = glyph.ID(rapid.Uint16().Draw(t, "newGid"))
					}
				}
				want = append(want, uint16(newGid[id]))
			}
		}
		for i := rapid.IntRange(0, 3).Draw(t, "extraKeys"); i > 0; i-- {
			k := glyph.ID(rapid.Uint16().Draw(t, "extraKey"))
			if _, ok := newGid[k]; !ok {
				newGid[k] = glyph.ID(rapid.Uint16().Draw(t, "extraVal"))
			}
		}
		mapCopy := map[glyph.ID]glyph.ID{}
		for k, v := range newGid {
			mapCopy[k] = v
		}

		var ids []glyph.ID
		if pn := guard.Try(func() { ids = g.Components() }); pn != nil {
			t.Fatalf("Components: %s\n%v", pn, m)
		}
		if m == nil || !m.composite {
			if ids != nil {
				t.Fatalf("Components() = %v for a non-composite glyph\n%v", ids, m)
			}
		} else {
			if len(ids) != len(m.g.Composite.Comps) {
				t.Fatalf("Components() = %v, want %d entries\n%v", ids, len(m.g.Composite.Comps), m)
			}
			for j, id := range ids {
				if uint16(id) != m.g.Composite.Comps[j].Glyph {
					t.Fatalf("Components() = %v, entry %d should be %d\n%v", ids, j, m.g.Composite.Comps[j].Glyph, m)
				}
			}
		}

		var g2 *glyf.Glyph
		if pn := guard.Try(func() { g2 = g.FixComponents(newGid) }); pn != nil {
			t.Fatalf("FixComponents(%v): %s\n%v", mapCopy, pn, m)
		}
		if len(newGid) != len(mapCopy) {
			t.Fatalf("FixComponents modified its map argument")
		}
		for k, v := range mapCopy {
			if newGid[k] != v {
				t.Fatalf("FixComponents modified its map argument")
			}
		}
		// the receiver is unchanged
		if msg := cmpLib(g, m); msg != "" {
			t.Fatalf("FixComponents(%v) modified its receiver: %s\n%v", mapCopy, msg, m)
		}
		switch {
		case m == nil:
			if g2 != nil {
				t.Fatalf("FixComponents on nil glyph returned %+v", g2)
			}
		case !m.composite:
			if msg := cmpLib(g2, m); msg != "" {
				t.Fatalf("FixComponents on a simple glyph: %s\n%v", msg, m)
			}
		default:
			// expected model: same records, ids replaced
			wm := &mglyph{composite: true}
			wc := &refglyf.Composite{HasInstr: m.g.Composite.HasInstr, Instr: m.g.Composite.Instr}
			for j, k := range m.g.Composite.Comps {
				k.Glyph = want[j]
				wc.Comps = append(wc.Comps, k)
			}
			body, err := refglyf.EncodeComposite(wc)
			if err != nil {
				t.Fatalf("harness bug: %v", err)
			}
			wg := *m.g
			wg.Composite, wg.Body = wc, body
			wm.g = &wg
			if msg := cmpLib(g2, wm); msg != "" {
				t.Fatalf("FixComponents(%v): %s\n  original: %v\n  expected: %v", mapCopy, msg, m, wm)
			}
			ids2 := g2.Components()
			for j, id := range ids2 {
				if uint16(id) != want[j] {
					t.Fatalf("FixComponents(%v).Components() = %v, want %v\n%v", mapCopy, ids2, want, m)
				}
			}
			// rewritten glyph encodes to what the reference encoder writes
			var enc *glyf.Encoded
			if pn := guard.Try(func() { enc = glyf.Glyphs{g2, g}.Encode() }); pn != nil {
				t.Fatalf("Encode after FixComponents: %s\n%v", pn, m)
			}
			if _, msg := checkEncoded(enc, []*mglyph{wm, m}); msg != "" {
				t.Fatalf("Encode after FixComponents(%v): %s\n  original: %v\n  expected: %v", mapCopy, msg, m, wm)
			}
			changed := false
			for j, k := range m.g.Composite.Comps {
				if k.Glyph != want[j] {
					changed = true
				}
			}
			if changed {
				labels.add("ids-changed")
			}
		}
		var fp uint64
		if m != nil {
			fp = stats.Hash(m.g.Bytes(), fmt.Sprint(want), direct)
		}
		stats.CaseIn("components", fp, m != nil && m.composite, func() string {
			return fmt.Sprintf("%v map=%v", m, mapCopy)
		}, labels.list()...)
	})
}

// TestC11LocaBoundary enumerates glyph sets whose encoded size lies at and
// around the two format limits (0xFFFF: where the library switches; 0x1FFFE:
// the largest offset a short loca table can hold).
func TestC11LocaBoundary(t *testing.T) {
	small := func() *mglyph {
		s := &refglyf.Simple{Contours: [][]refglyf.Point{{{X: 1, Y: 2, On: true}, {X: 300, Y: -2, On: false}, {X: 5, Y: 5, On: true}}}}
		body, err := refglyf.EncodeSimple(s, refglyf.Compact(s))
		if err != nil {
			t.Fatal(err)
		}
		return &mglyph{g: &refglyf.Glyph{NumContours: 1, XMin: 1, YMin: -2, XMax: 300, YMax: 5, Simple: s, Body: body}, nContours: 1, nPoints: 3}
	}
	count := 0
	for _, center := range []int{0x10000, 0x20000} {
		for target := center - 12; target <= center+12; target += 2 {
			for shape := 0; shape < 4; shape++ {
				s := &gset{class: fmt.Sprintf("boundary target=%d shape=%d", target, shape)}
				switch shape {
				case 1:
					s.glyphs = []*mglyph{nil, small(), nil}
				case 2:
					s.glyphs = []*mglyph{small(), small()}
				case 3:
					for i := 0; i < 1000; i++ {
						s.glyphs = append(s.glyphs, fillerGlyph(12+2*(i%5), i%2 == 0, byte(i)))
					}
				}
				if !fitBoundary(s, target, shape%2 == 1, byte(target)) {
					t.Fatalf("harness bug: cannot fit %d", target)
				}
				if shape >= 2 {
					s.glyphs = append(s.glyphs, nil) // trailing empty glyph at the end offset
				}
				gs := make(glyf.Glyphs, len(s.glyphs))
				for i, m := range s.glyphs {
					gs[i] = toLib(m)
				}
				var enc *glyf.Encoded
				if pn := guard.Try(func() { enc = gs.Encode() }); pn != nil {
					t.Fatalf("%s: Encode: %s", s.class, pn)
				}
				info, msg := checkEncoded(enc, s.glyphs)
				if msg != "" {
					t.Fatalf("%s (%d glyphs): Encode: %s", s.class, len(s.glyphs), msg)
				}
				if info.total != target {
					// the library may pad differently; the class is then not hit exactly
					stats.Label("boundary", "total-differs-from-target")
				}
				var back glyf.Glyphs
				var err error
				if pn := guard.Try(func() { back, err = glyf.Decode(enc) }); pn != nil {
					t.Fatalf("%s: Decode: %s", s.class, pn)
				}
				if err != nil || len(back) != len(s.glyphs) {
					t.Fatalf("%s: Decode(Encode): %v (%d glyphs, want %d; loca format %d, glyf %d bytes)", s.class, err, len(back), len(s.glyphs), enc.LocaFormat, len(enc.GlyfData))
				}
				for i, m := range s.glyphs {
					if msg := cmpLib(back[i], m); msg != "" {
						t.Fatalf("%s: Decode(Encode) glyph %d: %s", s.class, i, msg)
					}
				}
				// the same tables in the other legal format must decode too
				if target <= 0x1FFFE {
					recs := make([][]byte, len(s.glyphs))
					for i, m := range s.glyphs {
						if m != nil {
							recs[i] = m.g.Bytes()
						}
					}
					for format := 0; format <= 1; format++ {
						gd, ld, err := refglyf.Assemble(recs, nil, 2, format)
						if err != nil {
							t.Fatalf("harness bug: %v", err)
						}
						var dec glyf.Glyphs
						if pn := guard.Try(func() { dec, err = glyf.Decode(&glyf.Encoded{GlyfData: gd, LocaData: ld, LocaFormat: int16(format)}) }); pn != nil {
							t.Fatalf("%s: Decode(reference tables, format %d): %s", s.class, format, pn)
						}
						if err != nil || len(dec) != len(s.glyphs) {
							t.Fatalf("%s: Decode(reference tables, format %d): %v", s.class, format, err)
						}
						for i, m := range s.glyphs {
							if msg := cmpLib(dec[i], m); msg != "" {
								t.Fatalf("%s: Decode(reference tables, format %d) glyph %d: %s", s.class, format, i, msg)
							}
						}
					}
				}
				count++
				lab := []string{fmt.Sprintf("written-format:%d", info.format)}
				switch {
				case target <= 0xFFFF:
					lab = append(lab, "total<=0xFFFF")
				case target <= 0x1FFFE:
					lab = append(lab, "total<=0x1FFFE")
				default:
					lab = append(lab, "total>0x1FFFE")
				}
				stats.CaseIn("boundary", stats.Hash(target, shape), true, func() string { return s.class }, lab...)
			}
		}
	}
	stats.Exhaustive("boundary")
	t.Logf("%d boundary sets", count)
}
