package c11

import (
	"bytes"
	"fmt"
	"testing"
	"time"

	xsfnt "golang.org/x/image/font/sfnt"
	"golang.org/x/image/math/fixed"
	"pgregory.net/rapid"

	"seehuhn.de/go/postscript/funit"
	"seehuhn.de/go/sfnt"
	"seehuhn.de/go/sfnt/cmap"
	"seehuhn.de/go/sfnt/glyf"
	"seehuhn.de/go/sfnt/glyph"
	"seehuhn.de/go/sfnt/maxp"
	"seehuhn.de/go/sfnt/os2"
	"verif/harness/guard"
	"verif/harness/ref/refglyf"
	"verif/harness/ref/refsfnt"
	"verif/harness/stats"
)

// The differential against golang.org/x/image/font/sfnt: a complete
// TrueType font is written by (*sfnt.Font).Write around the generated glyph
// set, the file is walked by refsfnt (head.indexToLocFormat, glyf, loca) and
// loaded by x/image; the outline segments x/image reports must equal the
// reference conversion (refglyf.ContourPath) of the generated points.
//
// Normalisation (x/image's documented/observable conventions):
//   - y is negated by LoadGlyph;
//   - implied on-curve points are computed as (a+b)/2 in integer font units,
//     truncated towards zero (the reference keeps half units): the expected
//     value is truncated the same way;
//   - a contour starts at its first on-curve point or, if the first two
//     points are off-curve, at their midpoint; the reference starts at the
//     first on-curve point anywhere: contours are compared as cyclic lists;
//   - a contour that consists of one single off-curve point is degenerate;
//     x/image emits a curve from (0,0) for it: excluded and counted;
//   - composites: only ARGS_ARE_XY_VALUES without transformation are
//     compared (x/image rounds transformed coordinates in its own way).

const xUnitsPerEm = 2048

// xpath is a closed contour as a cyclic list of segments in doubled units.
type xpath []refglyf.Segment

func truncHalf(v int) int { return 2 * (v / 2) }

// expectedPaths returns the paths x/image should report for glyph i.
func expectedPaths(set []*mglyph, i int, depth int) ([]xpath, bool) {
	return expectedPathsStack(set, i, depth, 0)
}

// expectedPathsStack: x/image keeps the components of all composite glyphs on
// the path from the glyph being loaded to the current one on a stack of 64
// entries (maxCompoundStackSize) and reports "unsupported compound glyph"
// when it is full; stack is the number of entries in use.
func expectedPathsStack(set []*mglyph, i int, depth int, stack int) ([]xpath, bool) {
	m := set[i]
	if m == nil {
		return nil, true
	}
	if depth > 6 {
		return nil, false
	}
	if !m.composite {
		var res []xpath
		for _, c := range m.g.Simple.Contours {
			if len(c) == 1 && !c[0].On {
				return nil, false
			}
			p := refglyf.ContourPath(c)
			xp := make(xpath, len(p.Segs))
			for j, s := range p.Segs {
				xp[j] = refglyf.Segment{Quad: s.Quad, CX: truncHalf(s.CX), CY: truncHalf(s.CY), PX: truncHalf(s.PX), PY: truncHalf(s.PY)}
			}
			res = append(res, xp)
		}
		return res, true
	}
	var res []xpath
	stack += len(m.g.Composite.Comps)
	if stack > 64 {
		return nil, false
	}
	for _, k := range m.g.Composite.Comps {
		if k.Flags&refglyf.ArgsAreXYValues == 0 || refglyf.NumTransform(k.Flags) != 0 {
			return nil, false
		}
		if int(k.Glyph) >= len(set) {
			return nil, false
		}
		sub, ok := expectedPathsStack(set, int(k.Glyph), depth+1, stack)
		if !ok {
			return nil, false
		}
		for _, xp := range sub {
			tp := make(xpath, len(xp))
			for j, s := range xp {
				s.PX += 2 * k.Arg1
				s.PY += 2 * k.Arg2
				if s.Quad {
					s.CX += 2 * k.Arg1
					s.CY += 2 * k.Arg2
				}
				tp[j] = s
			}
			res = append(res, tp)
		}
	}
	return res, true
}

// fromX converts x/image segments into closed cyclic paths (doubled units,
// y up).
func fromX(segs xsfnt.Segments) ([]xpath, error) {
	var res []xpath
	var cur xpath
	var sx, sy int
	open := false
	closeCur := func() error {
		if !open {
			return nil
		}
		if len(cur) == 0 {
			return fmt.Errorf("contour without segments")
		}
		last := cur[len(cur)-1]
		if last.PX != sx || last.PY != sy {
			return fmt.Errorf("contour not closed: starts at (%d,%d)/2, ends at (%d,%d)/2", sx, sy, last.PX, last.PY)
		}
		res = append(res, cur)
		cur, open = nil, false
		return nil
	}
	for _, s := range segs {
		switch s.Op {
		case xsfnt.SegmentOpMoveTo:
			if err := closeCur(); err != nil {
				return nil, err
			}
			sx, sy = 2*int(s.Args[0].X), -2*int(s.Args[0].Y)
			open = true
		case xsfnt.SegmentOpLineTo:
			if !open {
				return nil, fmt.Errorf("LineTo without MoveTo")
			}
			cur = append(cur, refglyf.Segment{PX: 2 * int(s.Args[0].X), PY: -2 * int(s.Args[0].Y)})
		case xsfnt.SegmentOpQuadTo:
			if !open {
				return nil, fmt.Errorf("QuadTo without MoveTo")
			}
			cur = append(cur, refglyf.Segment{Quad: true,
				CX: 2 * int(s.Args[0].X), CY: -2 * int(s.Args[0].Y),
				PX: 2 * int(s.Args[1].X), PY: -2 * int(s.Args[1].Y)})
		default:
			return nil, fmt.Errorf("unexpected segment op %v", s.Op)
		}
	}
	if err := closeCur(); err != nil {
		return nil, err
	}
	return res, nil
}

func cyclicEqual(a, b xpath) bool {
	if len(a) != len(b) {
		return false
	}
	n := len(a)
	if n == 0 {
		return true
	}
	for r := 0; r < n; r++ {
		ok := true
		for i := 0; i < n; i++ {
			if a[i] != b[(i+r)%n] {
				ok = false
				break
			}
		}
		if ok {
			return true
		}
	}
	return false
}

func buildFont(gs glyf.Glyphs) *sfnt.Font {
	now := time.Date(2022, 1, 1, 0, 0, 0, 0, time.UTC)
	f := &sfnt.Font{
		FamilyName:       "C11",
		Weight:           os2.WeightNormal,
		Width:            os2.WidthNormal,
		Version:          0x00010000,
		CreationTime:     now,
		ModificationTime: now,
		UnitsPerEm:       xUnitsPerEm,
		Ascent:           1500,
		Descent:          -500,
		LineGap:          100,
		Outlines: &glyf.Outlines{
			Glyphs: gs,
			Widths: make([]funit.Int16, len(gs)),
			Maxp:   &maxp.TTFInfo{MaxZones: 2},
		},
	}
	f.InstallCMap(cmap.Format4{65: glyph.ID(len(gs) - 1)})
	return f
}

func TestC11XImage(t *testing.T) {
	rapid.Check(t, func(t *rapid.T) {
		n := rapid.IntRange(1, 10).Draw(t, "numGlyphs")
		s := &gset{class: "ximage"}
		labels := labelSet{}
		for i := 0; i < n; i++ {
			var m *mglyph
			switch k := rapid.IntRange(0, 9).Draw(t, "glyphKind"); {
			case k == 0:
				m = nil
			case k < 4:
				m = genSimple(t, szTiny)
			case k < 6:
				m = genSimple(t, szMed)
			case k == 6:
				m = genSimple(t, szRuns)
			default:
				if i == 0 {
					m = genSimple(t, szTiny)
					break
				}
				// composite over earlier glyphs, mostly translate-only
				m = genComposite(t, i)
				m.g.NumContours = -1
				plain := rapid.IntRange(0, 4).Draw(t, "plainComposite") != 0
				c := m.g.Composite
				for j := range c.Comps {
					k := &c.Comps[j]
					k.Glyph = uint16(rapid.IntRange(0, i-1).Draw(t, "compGid"))
					if plain {
						k.Flags |= refglyf.ArgsAreXYValues
						k.Flags &^= refglyf.WeHaveAScale | refglyf.WeHaveAnXAndYScale | refglyf.WeHaveATwoByTwo
						k.Transform = nil
						if k.Flags&refglyf.Arg1And2AreWords != 0 {
							k.Arg1 = rapid.IntRange(-3000, 3000).Draw(t, "dx")
							k.Arg2 = rapid.IntRange(-3000, 3000).Draw(t, "dy")
						} else {
							k.Arg1 = rapid.IntRange(-128, 127).Draw(t, "dx")
							k.Arg2 = rapid.IntRange(-128, 127).Draw(t, "dy")
						}
					}
				}
				body, err := refglyf.EncodeComposite(c)
				if err != nil {
					t.Fatalf("harness bug: %v", err)
				}
				m.g.Body = body
			}
			s.glyphs = append(s.glyphs, m)
			glyphLabels(labels, m)
		}
		if rapid.IntRange(0, 7).Draw(t, "fitBoundary") == 0 {
			target := rapid.SampledFrom(boundaryTotals).Draw(t, "targetTotal")
			if fitBoundary(s, target, rapid.Bool().Draw(t, "fillerOdd"), rapid.Byte().Draw(t, "fillerSeed")) {
				labels.add(fmt.Sprintf("boundary-total:%d", target))
				n = len(s.glyphs)
			}
		}
		set := s.glyphs
		gs := make(glyf.Glyphs, n)
		for i, m := range set {
			gs[i] = toLib(m)
		}
		font := buildFont(gs)
		var buf bytes.Buffer
		var err error
		if pn := guard.Try(func() { _, err = font.Write(&buf) }); pn != nil {
			t.Fatalf("Font.Write: %s\n%s", pn, describeSet(s, -1))
		}
		if err != nil {
			t.Fatalf("Font.Write: %v\n%s", err, describeSet(s, -1))
		}
		file := buf.Bytes()

		// the tables inside the file, in the format head announces
		rf, err := refsfnt.Parse(file)
		if err != nil {
			t.Fatalf("written file: %v", err)
		}
		head, ok1 := rf.Table("head")
		gd, ok2 := rf.Table("glyf")
		ld, ok3 := rf.Table("loca")
		if !ok1 || !ok2 || !ok3 || len(head) < 54 {
			t.Fatalf("written file lacks head/glyf/loca (%v %v %v, head %d bytes)\n%s", ok1, ok2, ok3, len(head), describeSet(s, -1))
		}
		format := int(int16(uint16(head[50])<<8 | uint16(head[51])))
		if _, msg := checkEncoded(&glyf.Encoded{GlyfData: gd, LocaData: ld, LocaFormat: int16(format)}, set); msg != "" {
			t.Fatalf("tables in the written file (head.indexToLocFormat=%d, loca %d bytes, glyf %d bytes): %s\n%s", format, len(ld), len(gd), msg, describeSet(s, -1))
		}
		labels.add(fmt.Sprintf("head-loca-format:%d", format))

		xf, err := xsfnt.Parse(file)
		if err != nil {
			t.Fatalf("x/image rejects the written font: %v\n%s", err, describeSet(s, -1))
		}
		if xf.NumGlyphs() != n {
			t.Fatalf("x/image sees %d glyphs, want %d", xf.NumGlyphs(), n)
		}
		var xb xsfnt.Buffer
		compared, nt := 0, false
		for i, m := range set {
			want, ok := expectedPaths(set, i, 0)
			if !ok {
				labels.add("ximage:abstain")
				continue
			}
			segs, err := xf.LoadGlyph(&xb, xsfnt.GlyphIndex(i), fixed.Int26_6(xUnitsPerEm), nil)
			if err != nil {
				t.Fatalf("x/image LoadGlyph(%d): %v\n%s", i, err, describeSet(s, i))
			}
			got, err := fromX(segs)
			if err != nil {
				t.Fatalf("x/image LoadGlyph(%d): %v\n  segments: %v\n%s", i, err, segs, describeSet(s, i))
			}
			if len(got) != len(want) {
				t.Fatalf("glyph %d: x/image reports %d contours, reference %d\n  x/image: %v\n  reference: %v\n%s", i, len(got), len(want), got, want, describeSet(s, i))
			}
			for j := range got {
				if !cyclicEqual(got[j], want[j]) {
					t.Fatalf("glyph %d contour %d: x/image and reference disagree (doubled units)\n  x/image:   %+v\n  reference: %+v\n%s", i, j, got[j], want[j], describeSet(s, i))
				}
			}
			compared++
			if m != nil && (m.composite || m.nContours >= 2) {
				nt = true
			}
			if m != nil && m.composite {
				labels.add("ximage:composite-compared")
			}
		}
		if compared == 0 {
			labels.add("ximage:nothing-compared")
		}
		stats.CaseIn("ximage", stats.Hash(gd, ld), nt && compared > 0, func() string { return describeSet(s, 0) }, labels.list()...)
	})
}
