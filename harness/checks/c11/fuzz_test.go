package c11

import (
	"bytes"
	"testing"

	"seehuhn.de/go/sfnt/glyf"
	"verif/harness/guard"
	"verif/harness/ref/refglyf"
)

func fuzzSeeds() [][3][]byte {
	pt := func(x, y int16, on bool) refglyf.Point { return refglyf.Point{X: x, Y: y, On: on} }
	s1 := &refglyf.Simple{Contours: [][]refglyf.Point{
		{pt(0, 0, true), pt(100, 0, true), pt(100, 100, false), pt(0, 100, true)},
		{pt(10, 10, false), pt(300, 10, false), pt(300, -300, false)},
		{pt(1, 1, true), pt(2, 2, true), pt(3, 3, true), pt(4, 4, true), pt(5, 5, true)},
	}, Instr: []byte{1, 2, 3}}
	b1, _ := refglyf.EncodeSimple(s1, refglyf.Compact(s1))
	long := &refglyf.Encoding{}
	for range make([]int, s1.NumPoints()) {
		long.X = append(long.X, refglyf.Long)
		long.Y = append(long.Y, refglyf.Long)
	}
	b2, _ := refglyf.EncodeSimple(s1, long)
	s0 := &refglyf.Simple{Instr: []byte{9}}
	b0, _ := refglyf.EncodeSimple(s0, &refglyf.Encoding{})
	c := &refglyf.Composite{Comps: []refglyf.Component{
		{Flags: refglyf.MoreComponents | refglyf.ArgsAreXYValues | refglyf.WeHaveAScale, Glyph: 1, Arg1: -3, Arg2: 4, Transform: []int16{0x4000}},
		{Flags: refglyf.MoreComponents | refglyf.Arg1And2AreWords | refglyf.WeHaveATwoByTwo, Glyph: 0, Arg1: 300, Arg2: 400, Transform: []int16{1, 2, 3, 4}},
		{Flags: refglyf.WeHaveInstructions | refglyf.ArgsAreXYValues | refglyf.Arg1And2AreWords | refglyf.WeHaveAnXAndYScale, Glyph: 2, Arg1: -300, Arg2: 4, Transform: []int16{-1, 77}},
	}, HasInstr: true, Instr: []byte{7, 7, 7}}
	bc, _ := refglyf.EncodeComposite(c)
	gl := []*refglyf.Glyph{
		{NumContours: 3, XMax: 300, YMax: 100, YMin: -300, Simple: s1, Body: b1},
		nil,
		{NumContours: 3, XMax: 300, YMax: 100, YMin: -300, Simple: s1, Body: b2},
		{NumContours: 0, Simple: s0, Body: b0},
		{NumContours: -1, XMin: -5, Composite: c, Body: bc},
	}
	var recs [][]byte
	for _, g := range gl {
		recs = append(recs, g.Bytes())
	}
	var res [][3][]byte
	for _, cfg := range [][2]int{{2, 0}, {4, 1}, {1, 1}} {
		gd, ld, err := refglyf.Assemble(recs, []int{0, 0, 3, 1, 0}, cfg[0], cfg[1])
		if err != nil {
			panic(err)
		}
		res = append(res, [3][]byte{gd, ld, {byte(cfg[1])}})
	}
	return res
}

// FuzzC11Decode: bytes → glyf.Decode → SimpleGlyph.Decode / Encode, judged
// by the reference decoder.  Inputs the reference decoder does not accept as
// a well-formed glyf/loca pair are outside C11 (they belong to C02) and are
// skipped.
func FuzzC11Decode(f *testing.F) {
	for _, s := range fuzzSeeds() {
		f.Add(s[0], s[1], s[2][0] != 0)
	}
	f.Fuzz(func(t *testing.T, glyfData, locaData []byte, long bool) {
		if len(glyfData) > 1<<18 || len(locaData) > 1<<14 {
			return
		}
		format := 0
		if long {
			format = 1
		}
		rgs, _, rerr := refglyf.Parse(glyfData, locaData, format)
		if rerr != nil {
			return
		}
		set := make([]*mglyph, len(rgs))
		for i, rg := range rgs {
			if rg == nil {
				continue
			}
			m := &mglyph{g: rg, composite: rg.Composite != nil}
			if rg.Composite != nil {
				// WE_HAVE_INSTRUCTIONS only on a non-final component is
				// ambiguous (the reference looks at the last component)
				last := len(rg.Composite.Comps) - 1
				for j, k := range rg.Composite.Comps {
					if j < last && k.Flags&refglyf.WeHaveInstructions != 0 && !rg.Composite.HasInstr {
						return
					}
					// more than one transform flag: precedence is not specified
					n := 0
					for _, b := range []uint16{refglyf.WeHaveAScale, refglyf.WeHaveAnXAndYScale, refglyf.WeHaveATwoByTwo} {
						if k.Flags&b != 0 {
							n++
						}
					}
					if n > 1 {
						return
					}
				}
			}
			set[i] = m
		}
		var gs glyf.Glyphs
		var err error
		enc := &glyf.Encoded{GlyfData: glyfData, LocaData: locaData, LocaFormat: int16(format)}
		if pn := guard.Try(func() { gs, err = glyf.Decode(enc) }); pn != nil {
			t.Fatalf("Decode of well-formed tables: %s", pn)
		}
		if err != nil {
			t.Fatalf("Decode rejects tables the reference decoder accepts: %v", err)
		}
		if len(gs) != len(set) {
			t.Fatalf("Decode: %d glyphs, reference %d", len(gs), len(set))
		}
		for i, m := range set {
			if msg := cmpLib(gs[i], m); msg != "" {
				t.Fatalf("glyph %d: %s", i, msg)
			}
			if m != nil && !m.composite {
				if msg := checkSimpleDecode(gs[i], m); msg != "" {
					t.Fatalf("glyph %d: %s", i, msg)
				}
			}
		}
		var enc2 *glyf.Encoded
		if pn := guard.Try(func() { enc2 = gs.Encode() }); pn != nil {
			t.Fatalf("Encode: %s", pn)
		}
		if _, msg := checkEncoded(enc2, set); msg != "" {
			t.Fatalf("Encode(Decode(x)): %s", msg)
		}
		gs2, err := glyf.Decode(enc2)
		if err != nil || len(gs2) != len(set) {
			t.Fatalf("Decode(Encode(Decode(x))): %v", err)
		}
		for i, m := range set {
			if msg := cmpLib(gs2[i], m); msg != "" {
				t.Fatalf("second decode, glyph %d: %s", i, msg)
			}
		}
		_ = bytes.Equal
	})
}
