package c11

import (
	"bytes"
	"testing"

	"seehuhn.de/go/sfnt/glyf"
	"verif/harness/guard"
	"verif/harness/ref/refglyf"
)

// TestC11RegressZeroContours: a simple glyph with numberOfContours == 0 (the
// description then consists of instructionLength and the instructions only)
// is accepted by glyf.Decode; (*SimpleGlyph).Decode must return zero
// contours and the instructions instead of indexing endPtsOfContours[-1].
func TestC11RegressZeroContours(t *testing.T) {
	for _, instr := range [][]byte{nil, {0xB0, 0x01, 0x2D}} {
		s := &refglyf.Simple{Instr: instr}
		body, err := refglyf.EncodeSimple(s, &refglyf.Encoding{})
		if err != nil {
			t.Fatal(err)
		}
		g := &refglyf.Glyph{NumContours: 0, Simple: s, Body: body}
		gd, ld, err := refglyf.Assemble([][]byte{g.Bytes()}, nil, 2, 0)
		if err != nil {
			t.Fatal(err)
		}
		gs, err := glyf.Decode(&glyf.Encoded{GlyfData: gd, LocaData: ld, LocaFormat: 0})
		if err != nil || len(gs) != 1 || gs[0] == nil {
			t.Fatalf("Decode: %v (%d glyphs)", err, len(gs))
		}
		sg, ok := gs[0].Data.(glyf.SimpleGlyph)
		if !ok || sg.NumContours != 0 {
			t.Fatalf("Decode: unexpected glyph %+v", gs[0])
		}
		var gi *glyf.GlyphInfo
		if pn := guard.Try(func() { gi, err = sg.Decode() }); pn != nil {
			t.Fatalf("SimpleGlyph.Decode on a zero-contour glyph (Encoded=%x): %s", sg.Encoded, pn)
		}
		if err != nil {
			t.Fatalf("SimpleGlyph.Decode on a zero-contour glyph: %v", err)
		}
		if len(gi.Contours) != 0 || !bytes.Equal(gi.Instructions, instr) {
			t.Fatalf("SimpleGlyph.Decode: %d contours, instructions %x; want 0 contours, instructions %x", len(gi.Contours), gi.Instructions, instr)
		}
	}
}
