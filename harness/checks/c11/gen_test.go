package c11

import (
	"fmt"
	"strings"

	"pgregory.net/rapid"

	"seehuhn.de/go/postscript/funit"
	"seehuhn.de/go/sfnt/glyf"
	"seehuhn.de/go/sfnt/glyph"
	"verif/harness/ref/refglyf"
)

// mglyph is one generated glyph: the model (points / component records), the
// encoding choices and the exact bytes produced by the reference encoder.
// A nil *mglyph is an empty glyph.
type mglyph struct {
	g   *refglyf.Glyph
	enc *refglyf.Encoding // simple glyphs only
	// classification
	nContours, nPoints int
	repeatFlags        int // flag bytes written with REPEAT_FLAG
	zeroRepeat         bool
	longRun            bool // a run of 256 points
	modes              [4]int
	offCurve           bool
	allOff             bool // some contour without on-curve point
	composite          bool
}

func (m *mglyph) String() string {
	if m == nil {
		return "nil"
	}
	g := m.g
	var sb strings.Builder
	fmt.Fprintf(&sb, "{nc=%d bbox=[%d %d %d %d] ", g.NumContours, g.XMin, g.YMin, g.XMax, g.YMax)
	if g.Simple != nil {
		fmt.Fprintf(&sb, "simple pts=%d instr=%d", m.nPoints, len(g.Simple.Instr))
		if m.nPoints <= 24 {
			fmt.Fprintf(&sb, " contours=%v", g.Simple.Contours)
		}
	} else {
		fmt.Fprintf(&sb, "composite comps=%+v hasInstr=%v instr=%d", g.Composite.Comps, g.Composite.HasInstr, len(g.Composite.Instr))
	}
	if len(g.Body) <= 96 {
		fmt.Fprintf(&sb, " body=%x", g.Body)
	} else {
		fmt.Fprintf(&sb, " body(%d)=%x…", len(g.Body), g.Body[:96])
	}
	sb.WriteString("}")
	return sb.String()
}

// fill returns n deterministic bytes derived from seed.
func fill(n int, seed byte) []byte {
	b := make([]byte, n)
	x := uint32(seed)*2654435761 + 977
	for i := range b {
		x = x*1664525 + 1013904223
		b[i] = byte(x >> 24)
	}
	return b
}

func genInstr(t *rapid.T, big bool) []byte {
	var n int
	switch k := rapid.IntRange(0, 9).Draw(t, "instrKind"); {
	case k < 5:
		n = 0
	case k < 8:
		n = rapid.IntRange(1, 12).Draw(t, "instrLen")
	case k == 8:
		n = rapid.SampledFrom([]int{1, 2, 255, 256, 257}).Draw(t, "instrLen")
	default:
		if big {
			n = rapid.SampledFrom([]int{1000, 4096, 30000, 65534, 65535}).Draw(t, "instrLen")
		} else {
			n = rapid.IntRange(13, 300).Draw(t, "instrLen")
		}
	}
	if n == 0 {
		return nil
	}
	return fill(n, rapid.Byte().Draw(t, "instrSeed"))
}

// genDelta draws one coordinate delta so that cur+delta stays in int16.
func genDelta(t *rapid.T, cur int, profile int, label string) int {
	var d int
	kind := profile
	if profile < 0 {
		kind = rapid.IntRange(0, 9).Draw(t, label+"Kind")
	}
	switch {
	case kind == 0 || kind == 1:
		d = 0
	case kind <= 5:
		d = rapid.IntRange(1, 255).Draw(t, label)
	case kind == 6:
		d = rapid.SampledFrom([]int{1, 254, 255, 256, 257}).Draw(t, label)
	case kind == 7:
		d = rapid.IntRange(256, 2000).Draw(t, label)
	case kind == 8:
		d = rapid.SampledFrom([]int{32767, 32768, 32766, 16384, 65535, 40000}).Draw(t, label)
	default:
		d = rapid.IntRange(0, 32768).Draw(t, label)
	}
	if d != 0 && rapid.Bool().Draw(t, label+"Neg") {
		d = -d
	}
	// the format stores deltas as int16: keep |delta| and the result in range
	if d > 32767 {
		d = 32767
	}
	if d < -32768 {
		d = -32768
	}
	if cur+d > 32767 || cur+d < -32768 {
		d = -d
		if d > 32767 {
			d = 32767
		}
	}
	if cur+d > 32767 || cur+d < -32768 {
		d = 0
	}
	return d
}

// genMode draws a legal storage mode for delta d.
func genMode(t *rapid.T, d int, style int, label string) refglyf.Mode {
	var legal []refglyf.Mode
	for _, m := range []refglyf.Mode{refglyf.Same, refglyf.ShortPos, refglyf.ShortNeg, refglyf.Long} {
		if refglyf.Legal(m, d) {
			legal = append(legal, m)
		}
	}
	switch style {
	case 0: // compact
		return legal[0]
	case 1: // always long
		return refglyf.Long
	case 2: // widest short form that is legal, else long
		for _, m := range legal {
			if m == refglyf.ShortPos || m == refglyf.ShortNeg {
				return m
			}
		}
		return refglyf.Long
	}
	if len(legal) == 1 {
		return legal[0]
	}
	return rapid.SampledFrom(legal).Draw(t, label)
}

// genRuns groups the flag bytes ff into runs.
func genRuns(t *rapid.T, ff []byte, style int) []refglyf.Run {
	var runs []refglyf.Run
	for i := 0; i < len(ff); {
		max := 1
		for i+max < len(ff) && ff[i+max] == ff[i] && max < 256 {
			max++
		}
		var r refglyf.Run
		k := style
		if style < 0 {
			k = rapid.IntRange(0, 5).Draw(t, "runKind")
		}
		switch {
		case k == 0: // never repeat
			r = refglyf.Run{N: 1}
		case k == 1: // repeat count 0
			r = refglyf.Run{N: 1, Repeat: true}
		case k == 2 && max > 1: // partial run
			r = refglyf.Run{N: rapid.IntRange(2, max).Draw(t, "runLen"), Repeat: true}
		default: // maximal
			r = refglyf.Run{N: max, Repeat: max > 1}
		}
		runs = append(runs, r)
		i += r.N
	}
	return runs
}

// simpleSize classes
const (
	szTiny  = iota // 0..3 contours of 1..6 points
	szMed          // 1..8 contours, up to ~60 points
	szRuns         // long runs of equal flags (up to 700 points)
	szBulk         // 1000..20000 points by tiling a drawn pattern
	szManyC        // many one-point contours
)

// genSimple draws a simple glyph together with its encoding.
func genSimple(t *rapid.T, size int) *mglyph {
	var contours [][]refglyf.Point
	var xm, ym []refglyf.Mode
	x, y := 0, 0
	nc := 0
	onProfile := rapid.IntRange(0, 3).Draw(t, "onProfile") // 0 all on, 1 mixed, 2 mostly off, 3 mixed
	modeStyle := rapid.SampledFrom([]int{0, 0, 1, 2, 3, 3, 3}).Draw(t, "modeStyle")
	deltaProfile := -1
	draw := func(n int) []refglyf.Point {
		c := make([]refglyf.Point, n)
		for i := range c {
			dx := genDelta(t, x, deltaProfile, "dx")
			dy := genDelta(t, y, deltaProfile, "dy")
			x += dx
			y += dy
			on := true
			switch onProfile {
			case 1, 3:
				on = rapid.Bool().Draw(t, "on")
			case 2:
				on = rapid.IntRange(0, 5).Draw(t, "on") == 0
			}
			c[i] = refglyf.Point{X: int16(x), Y: int16(y), On: on}
			xm = append(xm, genMode(t, dx, modeStyle, "xmode"))
			ym = append(ym, genMode(t, dy, modeStyle, "ymode"))
		}
		return c
	}
	switch size {
	case szTiny:
		nc = rapid.IntRange(0, 3).Draw(t, "numContours")
		for i := 0; i < nc; i++ {
			contours = append(contours, draw(rapid.IntRange(1, 6).Draw(t, "contourLen")))
		}
	case szMed:
		nc = rapid.IntRange(1, 8).Draw(t, "numContours")
		for i := 0; i < nc; i++ {
			contours = append(contours, draw(rapid.IntRange(1, 12).Draw(t, "contourLen")))
		}
	case szRuns:
		// constant small deltas / constant modes give long runs of equal flags
		deltaProfile = rapid.SampledFrom([]int{0, 3, 3, 7}).Draw(t, "deltaProfile")
		if onProfile != 0 && rapid.Bool().Draw(t, "forceOn") {
			onProfile = 0
		}
		nc = rapid.IntRange(1, 4).Draw(t, "numContours")
		for i := 0; i < nc; i++ {
			n := rapid.SampledFrom([]int{2, 5, 17, 60, 255, 256, 257, 300}).Draw(t, "contourLen")
			contours = append(contours, draw(n))
		}
	case szManyC:
		nc = rapid.SampledFrom([]int{40, 127, 128, 300, 1000}).Draw(t, "numContours")
		deltaProfile = rapid.SampledFrom([]int{0, 3}).Draw(t, "deltaProfile")
		pts := draw(nc)
		for i := range pts {
			contours = append(contours, pts[i:i+1])
		}
	case szBulk:
		// pattern of k points, then the same path walked backwards (returns
		// to the start, never leaves the int16 range), tiled; contour
		// boundaries at a drawn period
		k := rapid.IntRange(1, 40).Draw(t, "patLen")
		x, y = 0, 0
		deltaProfile = rapid.SampledFrom([]int{3, 6, 7}).Draw(t, "deltaProfile")
		pat := draw(k)
		pxm, pym := xm, ym
		xm, ym = nil, nil
		total := rapid.SampledFrom([]int{1000, 3000, 8000, 20000, 65536}).Draw(t, "bulkPoints")
		period := rapid.SampledFrom([]int{1, 3, 50, 1000, 1 << 20}).Draw(t, "bulkContourLen")
		mirror := func(m refglyf.Mode) refglyf.Mode {
			switch m {
			case refglyf.ShortPos:
				return refglyf.ShortNeg
			case refglyf.ShortNeg:
				return refglyf.ShortPos
			}
			return m
		}
		ddx := make([]int, k)
		ddy := make([]int, k)
		px, py := 0, 0
		for i, p := range pat {
			ddx[i], ddy[i] = int(p.X)-px, int(p.Y)-py
			px, py = int(p.X), int(p.Y)
		}
		var all []refglyf.Point
		cx, cy := 0, 0
		for len(all) < total {
			for i, p := range pat { // forward
				cx += ddx[i]
				cy += ddy[i]
				all = append(all, refglyf.Point{X: int16(cx), Y: int16(cy), On: p.On})
				xm = append(xm, pxm[i])
				ym = append(ym, pym[i])
			}
			for i := k - 1; i >= 0; i-- { // backwards
				cx -= ddx[i]
				cy -= ddy[i]
				all = append(all, refglyf.Point{X: int16(cx), Y: int16(cy), On: pat[i].On})
				xm = append(xm, mirror(pxm[i]))
				ym = append(ym, mirror(pym[i]))
			}
		}
		all, xm, ym = all[:total], xm[:total], ym[:total]
		for i := 0; i < total; i += period {
			j := i + period
			if j > total {
				j = total
			}
			contours = append(contours, all[i:j])
			if len(contours) == 32767 {
				contours[len(contours)-1] = all[i:]
				break
			}
		}
		nc = len(contours)
	}
	s := &refglyf.Simple{Contours: contours, Instr: genInstr(t, size == szBulk)}
	var pts []refglyf.Point
	for _, c := range contours {
		pts = append(pts, c...)
	}
	e := &refglyf.Encoding{X: xm, Y: ym}
	if len(pts) > 0 {
		e.Overlap = rapid.IntRange(0, 7).Draw(t, "overlapSimple") == 0
	}
	runStyle := -1
	if size == szBulk || size == szManyC {
		runStyle = rapid.SampledFrom([]int{0, 1, 3, 3}).Draw(t, "runStyle")
	} else if rapid.IntRange(0, 3).Draw(t, "runStyleFixed") == 0 {
		runStyle = rapid.SampledFrom([]int{0, 3}).Draw(t, "runStyle")
	}
	e.Runs = genRuns(t, e.Flags(pts), runStyle)
	body, err := refglyf.EncodeSimple(s, e)
	if err != nil {
		t.Fatalf("harness bug: reference encoder rejected generated glyph: %v", err)
	}
	m := &mglyph{enc: e, nContours: len(contours), nPoints: len(pts)}
	m.g = &refglyf.Glyph{NumContours: int16(len(contours)), Simple: s, Body: body}
	for _, r := range e.Runs {
		if r.Repeat {
			m.repeatFlags++
			if r.N == 1 {
				m.zeroRepeat = true
			}
			if r.N == 256 {
				m.longRun = true
			}
		}
	}
	for i := range pts {
		m.modes[e.X[i]]++
		m.modes[e.Y[i]]++
		if !pts[i].On {
			m.offCurve = true
		}
	}
	for _, c := range contours {
		on := false
		for _, p := range c {
			on = on || p.On
		}
		if !on {
			m.allOff = true
		}
	}
	genBBox(t, m, pts)
	return m
}

func genBBox(t *rapid.T, m *mglyph, pts []refglyf.Point) {
	g := m.g
	if len(pts) > 0 && rapid.IntRange(0, 3).Draw(t, "bboxTrue") != 0 {
		g.XMin, g.XMax, g.YMin, g.YMax = pts[0].X, pts[0].X, pts[0].Y, pts[0].Y
		for _, p := range pts {
			if p.X < g.XMin {
				g.XMin = p.X
			}
			if p.X > g.XMax {
				g.XMax = p.X
			}
			if p.Y < g.YMin {
				g.YMin = p.Y
			}
			if p.Y > g.YMax {
				g.YMax = p.Y
			}
		}
		return
	}
	i16 := rapid.OneOf(rapid.Int16(), rapid.SampledFrom([]int16{0, -1, 1, 255, 256, -256, 32767, -32768}))
	g.XMin = i16.Draw(t, "xMin")
	g.YMin = i16.Draw(t, "yMin")
	g.XMax = i16.Draw(t, "xMax")
	g.YMax = i16.Draw(t, "yMax")
}

var optionalCompFlags = []uint16{
	refglyf.RoundXYToGrid, refglyf.UseMyMetrics, refglyf.OverlapCompound,
	refglyf.ScaledComponentOffset, refglyf.UnscaledComponentOffset,
}

// genComponent draws one component record; numGlyphs biases the glyph index.
func genComponent(t *rapid.T, numGlyphs int) refglyf.Component {
	var k refglyf.Component
	if rapid.Bool().Draw(t, "argsAreWords") {
		k.Flags |= refglyf.Arg1And2AreWords
	}
	if rapid.Bool().Draw(t, "argsAreXY") {
		k.Flags |= refglyf.ArgsAreXYValues
	}
	switch rapid.IntRange(0, 4).Draw(t, "transform") {
	case 1:
		k.Flags |= refglyf.WeHaveAScale
	case 2:
		k.Flags |= refglyf.WeHaveAnXAndYScale
	case 3:
		k.Flags |= refglyf.WeHaveATwoByTwo
	case 4:
		// more than one of the (nominally exclusive) transform bits: every
		// TrueType reader resolves this by priority scale > x-and-y scale >
		// two-by-two (FreeType, x/image, this library), which fixes the
		// record length; the record must survive bit for bit
		k.Flags |= rapid.SampledFrom([]uint16{
			refglyf.WeHaveAScale | refglyf.WeHaveAnXAndYScale,
			refglyf.WeHaveAScale | refglyf.WeHaveATwoByTwo,
			refglyf.WeHaveAnXAndYScale | refglyf.WeHaveATwoByTwo,
			refglyf.WeHaveAScale | refglyf.WeHaveAnXAndYScale | refglyf.WeHaveATwoByTwo,
		}).Draw(t, "transformBits")
	}
	opt := rapid.IntRange(0, 31).Draw(t, "optFlags")
	for i, f := range optionalCompFlags {
		if opt&(1<<i) != 0 {
			k.Flags |= f
		}
	}
	words := k.Flags&refglyf.Arg1And2AreWords != 0
	xy := k.Flags&refglyf.ArgsAreXYValues != 0
	arg := func(label string) int {
		switch {
		case words && xy:
			return int(rapid.OneOf(rapid.Int16(), rapid.SampledFrom([]int16{0, -1, 127, 128, -128, -129, 32767, -32768})).Draw(t, label))
		case words:
			return int(rapid.OneOf(rapid.Uint16(), rapid.SampledFrom([]uint16{0, 255, 256, 65535})).Draw(t, label))
		case xy:
			return int(rapid.Int8().Draw(t, label))
		}
		return int(rapid.Uint8().Draw(t, label))
	}
	k.Arg1 = arg("arg1")
	k.Arg2 = arg("arg2")
	for i := refglyf.NumTransform(k.Flags); i > 0; i-- {
		k.Transform = append(k.Transform, rapid.OneOf(rapid.Int16(),
			rapid.SampledFrom([]int16{0, 0x4000, -0x4000, 0x2000, 0x7fff, -0x8000})).Draw(t, "f2dot14"))
	}
	switch rapid.IntRange(0, 3).Draw(t, "gidKind") {
	case 0:
		k.Glyph = rapid.Uint16().Draw(t, "gid")
	case 1:
		k.Glyph = rapid.SampledFrom([]uint16{0, 1, 255, 256, 0x7fff, 0x8000, 0xfffe, 0xffff}).Draw(t, "gid")
	default:
		k.Glyph = uint16(rapid.IntRange(0, numGlyphs-1).Draw(t, "gid"))
	}
	return k
}

func genComposite(t *rapid.T, numGlyphs int) *mglyph {
	n := rapid.SampledFrom([]int{1, 1, 2, 2, 3, 4, 7, 20}).Draw(t, "numComponents")
	c := &refglyf.Composite{}
	for i := 0; i < n; i++ {
		k := genComponent(t, numGlyphs)
		if i < n-1 {
			k.Flags |= refglyf.MoreComponents
		}
		c.Comps = append(c.Comps, k)
	}
	if rapid.IntRange(0, 2).Draw(t, "hasInstr") == 0 {
		c.HasInstr = true
		c.Instr = genInstr(t, false)
		// the flag is usually on the last component; it may be repeated on
		// earlier ones, or be carried by an earlier component only
		switch k := rapid.IntRange(0, 7).Draw(t, "instrFlagPlacement"); {
		case n == 1 || k <= 4:
			c.Comps[n-1].Flags |= refglyf.WeHaveInstructions
		case k <= 6:
			c.Comps[n-1].Flags |= refglyf.WeHaveInstructions
			c.Comps[rapid.IntRange(0, n-2).Draw(t, "instrFlagAt")].Flags |= refglyf.WeHaveInstructions
		default:
			c.Comps[rapid.IntRange(0, n-2).Draw(t, "instrFlagAt")].Flags |= refglyf.WeHaveInstructions
		}
	}
	body, err := refglyf.EncodeComposite(c)
	if err != nil {
		t.Fatalf("harness bug: reference encoder rejected generated composite: %v", err)
	}
	m := &mglyph{composite: true}
	nc := int16(-1)
	if rapid.IntRange(0, 9).Draw(t, "ncOther") == 0 {
		// the format says "if negative, this is a composite glyph — the value
		// -1 should be used": other negative values are legal input for the
		// decoder, but the library always writes -1, so they are used only in
		// the bytes→Decode direction (see checkBytesDirection).
		nc = rapid.SampledFrom([]int16{-2, -32768, -255}).Draw(t, "nc")
	}
	m.g = &refglyf.Glyph{NumContours: nc, Composite: c, Body: body}
	genBBox(t, m, nil)
	return m
}

// genGlyph draws nil / simple / composite.
func genGlyph(t *rapid.T, numGlyphs int, allowBig bool) *mglyph {
	k := rapid.IntRange(0, 19).Draw(t, "glyphKind")
	switch {
	case k < 3:
		return nil
	case k < 8:
		return genSimple(t, szTiny)
	case k < 12:
		return genSimple(t, szMed)
	case k < 14:
		return genSimple(t, szRuns)
	case k == 14:
		if allowBig {
			return genSimple(t, rapid.SampledFrom([]int{szBulk, szManyC}).Draw(t, "bigKind"))
		}
		return genSimple(t, szRuns)
	default:
		return genComposite(t, numGlyphs)
	}
}

// gset is a generated glyph set.
type gset struct {
	glyphs []*mglyph // by glyph id (may share *mglyph between ids)
	class  string
}

// genSet draws a glyph set.  Large sets are built from a small pool of
// drawn glyphs arranged by a drawn periodic pattern, so that the number of
// rapid draws stays bounded.
func genSet(t *rapid.T, thorough bool) *gset {
	// rapid's integer draws favour small values, so the frequent classes
	// come first; the expensive classes are gated a second time in the quick
	// tier.
	class := rapid.SampledFrom([]string{
		"n=2..8", "n=9..60", "n=9..60", "n=2..8", "n=1", "n=61..300", "n=9..60", "n=2..8",
		"n=61..300", "n=1000..5000", "big-glyphs", "n=65535", "n=9..60", "n=2..8", "big-glyphs", "n=9..60",
	}).Draw(t, "setClass")
	switch class {
	case "n=1000..5000", "big-glyphs", "n=65535":
		if !thorough && rapid.IntRange(0, 3).Draw(t, "expensive") != 3 {
			class = "n=9..60"
		}
	}
	s := &gset{class: class}
	var n int
	switch class {
	case "n=1":
		n = 1
	case "n=2..8":
		n = rapid.IntRange(2, 8).Draw(t, "numGlyphs")
	case "n=9..60":
		n = rapid.IntRange(9, 60).Draw(t, "numGlyphs")
	case "big-glyphs":
		n = rapid.IntRange(1, 12).Draw(t, "numGlyphs")
	case "n=61..300":
		n = rapid.IntRange(61, 300).Draw(t, "numGlyphs")
	case "n=1000..5000":
		n = rapid.SampledFrom([]int{1000, 2731, 5000, 5461, 5462, 6554, 10923}).Draw(t, "numGlyphs")
	default:
		n = rapid.SampledFrom([]int{65535, 65535, 65534, 32768, 10923}).Draw(t, "numGlyphs")
	}
	if n <= 60 {
		for i := 0; i < n; i++ {
			s.glyphs = append(s.glyphs, genGlyph(t, n, class == "big-glyphs"))
		}
		if class == "big-glyphs" {
			// make sure the total gets large
			for i := rapid.IntRange(1, 6).Draw(t, "numBig"); i > 0; i-- {
				j := rapid.IntRange(0, n-1).Draw(t, "bigAt")
				s.glyphs[j] = genSimple(t, rapid.SampledFrom([]int{szBulk, szBulk, szManyC}).Draw(t, "bigKind"))
			}
		}
		return s
	}
	np := rapid.IntRange(2, 16).Draw(t, "poolSize")
	pool := make([]*mglyph, np)
	for i := range pool {
		pool[i] = genGlyph(t, n, false)
	}
	period := rapid.IntRange(1, 40).Draw(t, "period")
	pat := make([]int, period)
	for i := range pat {
		pat[i] = rapid.IntRange(0, np-1).Draw(t, "poolIdx")
	}
	s.glyphs = make([]*mglyph, n)
	for i := range s.glyphs {
		s.glyphs[i] = pool[pat[i%period]]
	}
	// a few individually drawn positions (first, last, ...)
	for _, at := range []int{0, n - 1, n / 2} {
		if rapid.Bool().Draw(t, "special") {
			s.glyphs[at] = genGlyph(t, n, false)
		}
	}
	return s
}

// recLen returns the unpadded record length of glyph m (0 for nil).
func recLen(m *mglyph) int {
	if m == nil {
		return 0
	}
	return 10 + len(m.g.Body)
}

func even(n int) int { return n + n%2 }

// total2 is the size of the set when every glyph is padded to even length.
func (s *gset) total2() int {
	tot := 0
	for _, m := range s.glyphs {
		tot += even(recLen(m))
	}
	return tot
}

// fillerGlyph returns a zero-contour simple glyph whose padded record length
// is exactly n (n even, n >= 12).
func fillerGlyph(n int, odd bool, seed byte) *mglyph {
	il := n - 12
	if odd && il > 0 {
		il-- // unpadded length n-1, one padding byte
	}
	s := &refglyf.Simple{Instr: fill(il, seed)}
	body, err := refglyf.EncodeSimple(s, &refglyf.Encoding{})
	if err != nil {
		panic(err)
	}
	return &mglyph{enc: &refglyf.Encoding{}, g: &refglyf.Glyph{NumContours: 0, Simple: s, Body: body}}
}

// toLib converts the model to the library's representation.  Slices are
// fresh copies.
func toLib(m *mglyph) *glyf.Glyph {
	if m == nil {
		return nil
	}
	g := m.g
	res := &glyf.Glyph{Rect16: funit.Rect16{
		LLx: funit.Int16(g.XMin), LLy: funit.Int16(g.YMin),
		URx: funit.Int16(g.XMax), URy: funit.Int16(g.YMax)}}
	if g.Simple != nil {
		res.Data = glyf.SimpleGlyph{NumContours: g.NumContours, Encoded: append([]byte{}, g.Body...)}
		return res
	}
	var cg glyf.CompositeGlyph
	for i := range g.Composite.Comps {
		k := &g.Composite.Comps[i]
		ab, err := k.ArgBytes()
		if err != nil {
			panic(err)
		}
		cg.Components = append(cg.Components, glyf.GlyphComponent{
			Flags: glyf.ComponentFlag(k.Flags), GlyphIndex: glyph.ID(k.Glyph), Data: ab})
	}
	if g.Composite.HasInstr {
		cg.Instructions = append([]byte{}, g.Composite.Instr...)
	}
	res.Data = cg
	return res
}
