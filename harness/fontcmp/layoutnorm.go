package fontcmp

import (
	"seehuhn.de/go/sfnt/opentype/classdef"
	"seehuhn.de/go/sfnt/opentype/gtab"
)

// Expected value of a GSUB/GPOS table after one encode/decode cycle (the
// same rules C08 applies; kept here for whole-font checks).
//
// The binary formats cannot express every distinction the Go structs can:
//
//   - a value record array shares ONE valueFormat: if any record of the
//     column is present, absent (nil) records are stored as all-zero records
//     and come back non-nil; if every record is nil they all stay nil;
//   - class 0 is "not listed": explicit zero entries of a class definition
//     table disappear;
//   - nil and empty slices/maps are the same (handled by the comparer).
//
// ExpectInfo returns x with these rules applied (x itself is not modified).

func normVR(vr *gtab.GposValueRecord, present bool) *gtab.GposValueRecord {
	if vr == nil && present {
		return &gtab.GposValueRecord{}
	}
	return vr
}

func normClass(c classdef.Table) classdef.Table {
	hasZero := false
	for _, v := range c {
		if v == 0 {
			hasZero = true
			break
		}
	}
	if !hasZero {
		return c
	}
	res := classdef.Table{}
	for g, v := range c {
		if v != 0 {
			res[g] = v
		}
	}
	return res
}

func ExpectSubtable(s gtab.Subtable) gtab.Subtable {
	switch s := s.(type) {
	case *gtab.Gpos1_2:
		any := false
		for _, a := range s.Adjust {
			any = any || a != nil
		}
		res := &gtab.Gpos1_2{Cov: s.Cov, Adjust: make([]*gtab.GposValueRecord, len(s.Adjust))}
		for i, a := range s.Adjust {
			res.Adjust[i] = normVR(a, any)
		}
		return res
	case gtab.Gpos2_1:
		any1, any2 := false, false
		for _, pa := range s {
			any1 = any1 || pa.First != nil
			any2 = any2 || pa.Second != nil
		}
		res := make(gtab.Gpos2_1, len(s))
		for k, pa := range s {
			res[k] = &gtab.PairAdjust{First: normVR(pa.First, any1), Second: normVR(pa.Second, any2)}
		}
		return res
	case *gtab.Gpos2_2:
		any1, any2 := false, false
		for _, row := range s.Adjust {
			for _, pa := range row {
				any1 = any1 || pa.First != nil
				any2 = any2 || pa.Second != nil
			}
		}
		res := &gtab.Gpos2_2{Cov: s.Cov, Class1: normClass(s.Class1), Class2: normClass(s.Class2)}
		for _, row := range s.Adjust {
			r := make([]*gtab.PairAdjust, len(row))
			for j, pa := range row {
				r[j] = &gtab.PairAdjust{First: normVR(pa.First, any1), Second: normVR(pa.Second, any2)}
			}
			res.Adjust = append(res.Adjust, r)
		}
		return res
	}
	return s
}

func ExpectInfo(x *gtab.Info) *gtab.Info {
	res := &gtab.Info{ScriptList: x.ScriptList, FeatureList: x.FeatureList}
	if x.LookupList != nil {
		res.LookupList = make(gtab.LookupList, len(x.LookupList))
	}
	for i, l := range x.LookupList {
		nl := &gtab.LookupTable{Meta: l.Meta}
		for _, s := range l.Subtables {
			nl.Subtables = append(nl.Subtables, ExpectSubtable(s))
		}
		res.LookupList[i] = nl
	}
	return res
}
