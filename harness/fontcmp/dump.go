package fontcmp

import (
	"fmt"
	"reflect"
	"sort"
	"strings"
)

// Dump renders any value deterministically (maps sorted, pointers followed).
func Dump(v any) string {
	var sb strings.Builder
	dump(&sb, reflect.ValueOf(v), 0)
	return sb.String()
}

func dump(sb *strings.Builder, v reflect.Value, depth int) {
	if depth > 30 {
		sb.WriteString("…")
		return
	}
	if !v.IsValid() {
		sb.WriteString("nil")
		return
	}
	switch v.Kind() {
	case reflect.Ptr, reflect.Interface:
		if v.IsNil() {
			sb.WriteString("nil")
			return
		}
		if v.Kind() == reflect.Interface {
			fmt.Fprintf(sb, "%s", v.Elem().Type().String())
		}
		dump(sb, v.Elem(), depth+1)
	case reflect.Struct:
		sb.WriteString("{")
		for i := 0; i < v.NumField(); i++ {
			if i > 0 {
				sb.WriteString(" ")
			}
			fmt.Fprintf(sb, "%s:", v.Type().Field(i).Name)
			dump(sb, v.Field(i), depth+1)
		}
		sb.WriteString("}")
	case reflect.Slice, reflect.Array:
		if v.Kind() == reflect.Slice && v.IsNil() {
			sb.WriteString("[]")
			return
		}
		sb.WriteString("[")
		for i := 0; i < v.Len(); i++ {
			if i > 0 {
				sb.WriteString(" ")
			}
			dump(sb, v.Index(i), depth+1)
		}
		sb.WriteString("]")
	case reflect.Map:
		keys := v.MapKeys()
		sort.Slice(keys, func(i, j int) bool {
			a, b := keys[i], keys[j]
			if a.CanInt() && b.CanInt() {
				return a.Int() < b.Int()
			}
			if a.CanUint() && b.CanUint() {
				return a.Uint() < b.Uint()
			}
			return fmt.Sprint(a) < fmt.Sprint(b)
		})
		sb.WriteString("map[")
		for i, k := range keys {
			if i > 0 {
				sb.WriteString(" ")
			}
			fmt.Fprintf(sb, "%v:", k)
			dump(sb, v.MapIndex(k), depth+1)
		}
		sb.WriteString("]")
	default:
		if v.CanInterface() {
			fmt.Fprintf(sb, "%v", v.Interface())
		} else {
			fmt.Fprintf(sb, "%v", v)
		}
	}
}
