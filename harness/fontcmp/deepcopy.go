package fontcmp

import "reflect"

// DeepCopy returns a copy of v that shares no pointer, slice or map with it
// (function values and structs with unexported fields, e.g. language tags,
// are copied as values).  Code that keys hidden state by object identity
// cannot connect the copy with the original.
func DeepCopy[T any](v T) T {
	out := reflect.New(reflect.TypeOf(&v).Elem()).Elem()
	deepCopy(out, reflect.ValueOf(&v).Elem())
	return out.Interface().(T)
}

func hasUnexported(t reflect.Type) bool {
	for i := 0; i < t.NumField(); i++ {
		if !t.Field(i).IsExported() {
			return true
		}
	}
	return false
}

func deepCopy(dst, src reflect.Value) {
	switch src.Kind() {
	case reflect.Pointer:
		if src.IsNil() {
			return
		}
		n := reflect.New(src.Type().Elem())
		deepCopy(n.Elem(), src.Elem())
		dst.Set(n)
	case reflect.Interface:
		if src.IsNil() {
			return
		}
		e := src.Elem()
		n := reflect.New(e.Type()).Elem()
		deepCopy(n, e)
		dst.Set(n)
	case reflect.Slice:
		if src.IsNil() {
			return
		}
		n := reflect.MakeSlice(src.Type(), src.Len(), src.Len())
		for i := 0; i < src.Len(); i++ {
			deepCopy(n.Index(i), src.Index(i))
		}
		dst.Set(n)
	case reflect.Array:
		for i := 0; i < src.Len(); i++ {
			deepCopy(dst.Index(i), src.Index(i))
		}
	case reflect.Map:
		if src.IsNil() {
			return
		}
		n := reflect.MakeMapWithSize(src.Type(), src.Len())
		it := src.MapRange()
		for it.Next() {
			k := reflect.New(src.Type().Key()).Elem()
			deepCopy(k, it.Key())
			v := reflect.New(src.Type().Elem()).Elem()
			deepCopy(v, it.Value())
			n.SetMapIndex(k, v)
		}
		dst.Set(n)
	case reflect.Struct:
		if hasUnexported(src.Type()) {
			dst.Set(src)
			return
		}
		for i := 0; i < src.NumField(); i++ {
			deepCopy(dst.Field(i), src.Field(i))
		}
	default:
		dst.Set(src)
	}
}
