// Package fontcmp compares sfnt.Font values field by field.  It is the
// explicit comparer of C01 (also used by C10, C16, C18): every tolerance is
// tied to a field width of the file format.
package fontcmp

import (
	"bytes"
	"fmt"
	"math"
	"reflect"
	"sort"

	"seehuhn.de/go/geom/matrix"

	"seehuhn.de/go/sfnt"
	"seehuhn.de/go/sfnt/cff"
	"seehuhn.de/go/sfnt/glyf"
	"seehuhn.de/go/sfnt/glyph"
	"seehuhn.de/go/sfnt/opentype/gtab"
)

const eps16 = 1.0 / 65536

// Opts tunes a comparison.
type Opts struct {
	// SkipMeta skips everything except outlines, cmap and layout tables.
	SkipMeta bool
}

func relClose(a, b, rel float64) bool {
	if a == b {
		return true
	}
	d := math.Abs(a - b)
	m := math.Max(math.Abs(a), math.Abs(b))
	return d <= rel*m || d < 1e-300
}

func matClose(a, b matrix.Matrix) bool {
	for i := range a {
		if !relClose(a[i], b[i], 1e-8) && math.Abs(a[i]-b[i]) > 1e-12 {
			return false
		}
	}
	return true
}

// Diff returns "" if the fonts are equal, else the first difference found.
func Diff(want, got *sfnt.Font) string { return DiffOpts(want, got, Opts{}) }

func DiffOpts(want, got *sfnt.Font, o Opts) string {
	if want == nil || got == nil {
		if want == got {
			return ""
		}
		return fmt.Sprintf("nil mismatch: want %v got %v", want != nil, got != nil)
	}
	if !o.SkipMeta {
		if d := diffMeta(want, got); d != "" {
			return d
		}
	}
	if d := DiffOutlines(want.Outlines, got.Outlines); d != "" {
		return d
	}
	if d := diffCmap(want, got); d != "" {
		return d
	}
	if d := DeepDiff("Gdef", want.Gdef, got.Gdef); d != "" {
		return d
	}
	if d := DiffInfo("Gsub", want.Gsub, got.Gsub); d != "" {
		return d
	}
	if d := DiffInfo("Gpos", want.Gpos, got.Gpos); d != "" {
		return d
	}
	return ""
}

func diffMeta(a, b *sfnt.Font) string {
	type fld struct {
		name string
		x, y any
	}
	flds := []fld{
		{"FamilyName", a.FamilyName, b.FamilyName},
		{"Width", a.Width, b.Width},
		{"Weight", a.Weight, b.Weight},
		{"IsRegular", a.IsRegular, b.IsRegular},
		{"IsBold", a.IsBold, b.IsBold},
		{"IsItalic", a.IsItalic, b.IsItalic},
		{"IsOblique", a.IsOblique, b.IsOblique},
		{"IsSerif", a.IsSerif, b.IsSerif},
		{"IsScript", a.IsScript, b.IsScript},
		{"CodePageRange", a.CodePageRange, b.CodePageRange},
		{"Version", a.Version, b.Version},
		{"Description", a.Description, b.Description},
		{"SampleText", a.SampleText, b.SampleText},
		{"Copyright", a.Copyright, b.Copyright},
		{"Trademark", a.Trademark, b.Trademark},
		{"License", a.License, b.License},
		{"LicenseURL", a.LicenseURL, b.LicenseURL},
		{"PermUse", a.PermUse, b.PermUse},
		{"UnitsPerEm", a.UnitsPerEm, b.UnitsPerEm},
		{"Ascent", a.Ascent, b.Ascent},
		{"Descent", a.Descent, b.Descent},
		{"LineGap", a.LineGap, b.LineGap},
		{"CapHeight", a.CapHeight, b.CapHeight},
		{"XHeight", a.XHeight, b.XHeight},
	}
	for _, f := range flds {
		if f.x != f.y {
			return fmt.Sprintf("%s: want %v got %v", f.name, f.x, f.y)
		}
	}
	if !(a.CreationTime.IsZero() && b.CreationTime.IsZero()) && !a.CreationTime.Equal(b.CreationTime) {
		return fmt.Sprintf("CreationTime: want %v got %v", a.CreationTime.UTC(), b.CreationTime.UTC())
	}
	if !(a.ModificationTime.IsZero() && b.ModificationTime.IsZero()) && !a.ModificationTime.Equal(b.ModificationTime) {
		return fmt.Sprintf("ModificationTime: want %v got %v", a.ModificationTime.UTC(), b.ModificationTime.UTC())
	}
	if !matClose(a.FontMatrix, b.FontMatrix) {
		return fmt.Sprintf("FontMatrix: want %v got %v", a.FontMatrix, b.FontMatrix)
	}
	if math.Abs(a.ItalicAngle-b.ItalicAngle) > eps16 {
		return fmt.Sprintf("ItalicAngle: want %v got %v", a.ItalicAngle, b.ItalicAngle)
	}
	if math.Abs(float64(a.UnderlinePosition-b.UnderlinePosition)) > 1e-9 {
		return fmt.Sprintf("UnderlinePosition: want %v got %v", a.UnderlinePosition, b.UnderlinePosition)
	}
	if math.Abs(float64(a.UnderlineThickness-b.UnderlineThickness)) > 1e-9 {
		return fmt.Sprintf("UnderlineThickness: want %v got %v", a.UnderlineThickness, b.UnderlineThickness)
	}
	return ""
}

// DiffOutlines compares glyph data.
func DiffOutlines(a, b sfnt.Outlines) string {
	switch x := a.(type) {
	case *glyf.Outlines:
		y, ok := b.(*glyf.Outlines)
		if !ok {
			return fmt.Sprintf("outline kind: want glyf got %T", b)
		}
		return diffGlyf(x, y)
	case *cff.Outlines:
		y, ok := b.(*cff.Outlines)
		if !ok {
			return fmt.Sprintf("outline kind: want cff got %T", b)
		}
		return DiffCFF(x, y)
	}
	return fmt.Sprintf("unexpected outline type %T", a)
}

func bytesEqNil(a, b []byte) bool { return (a == nil) == (b == nil) && bytes.Equal(a, b) }

// DiffGlyph compares two TrueType glyphs bit for bit.
func DiffGlyph(g, h *glyf.Glyph) string {
	if (g == nil) != (h == nil) {
		return fmt.Sprintf("nil-ness want %v got %v", g == nil, h == nil)
	}
	if g == nil {
		return ""
	}
	if g.Rect16 != h.Rect16 {
		return fmt.Sprintf("bbox want %v got %v", g.Rect16, h.Rect16)
	}
	switch d := g.Data.(type) {
	case glyf.SimpleGlyph:
		e, ok := h.Data.(glyf.SimpleGlyph)
		if !ok {
			return fmt.Sprintf("want simple got %T", h.Data)
		}
		if d.NumContours != e.NumContours || !bytes.Equal(d.Encoded, e.Encoded) {
			return fmt.Sprintf("simple glyph data differs: want %d/%x got %d/%x", d.NumContours, d.Encoded, e.NumContours, e.Encoded)
		}
	case glyf.CompositeGlyph:
		e, ok := h.Data.(glyf.CompositeGlyph)
		if !ok {
			return fmt.Sprintf("want composite got %T", h.Data)
		}
		if len(d.Components) != len(e.Components) {
			return fmt.Sprintf("component count want %d got %d", len(d.Components), len(e.Components))
		}
		for k := range d.Components {
			c, c2 := d.Components[k], e.Components[k]
			if c.Flags != c2.Flags || c.GlyphIndex != c2.GlyphIndex || !bytes.Equal(c.Data, c2.Data) {
				return fmt.Sprintf("component %d want %v got %v", k, c, c2)
			}
		}
		if !bytesEqNil(d.Instructions, e.Instructions) {
			return fmt.Sprintf("composite instructions want %v got %v", d.Instructions, e.Instructions)
		}
	default:
		return fmt.Sprintf("unexpected glyph data %T", g.Data)
	}
	return ""
}

func diffGlyf(a, b *glyf.Outlines) string {
	if len(a.Glyphs) != len(b.Glyphs) {
		return fmt.Sprintf("glyph count: want %d got %d", len(a.Glyphs), len(b.Glyphs))
	}
	for i := range a.Glyphs {
		if d := DiffGlyph(a.Glyphs[i], b.Glyphs[i]); d != "" {
			return fmt.Sprintf("glyph %d: %s", i, d)
		}
	}
	if len(a.Widths) != len(b.Widths) {
		return fmt.Sprintf("widths length: want %d got %d", len(a.Widths), len(b.Widths))
	}
	for i := range a.Widths {
		if a.Widths[i] != b.Widths[i] {
			return fmt.Sprintf("width %d: want %d got %d", i, a.Widths[i], b.Widths[i])
		}
	}
	if len(a.Names) != len(b.Names) {
		return fmt.Sprintf("names length: want %d got %d", len(a.Names), len(b.Names))
	}
	for i := range a.Names {
		if a.Names[i] != b.Names[i] {
			return fmt.Sprintf("name %d: want %q got %q", i, a.Names[i], b.Names[i])
		}
	}
	// a zero-length cvt/fpgm/prep/gasp table is the same as no table (the
	// reader does not report empty tables)
	nonEmpty := func(m map[string][]byte) map[string][]byte {
		r := map[string][]byte{}
		for k, v := range m {
			if len(v) > 0 {
				r[k] = v
			}
		}
		return r
	}
	ta, tb := nonEmpty(a.Tables), nonEmpty(b.Tables)
	if len(ta) != len(tb) {
		return fmt.Sprintf("extra tables: want %d got %d", len(ta), len(tb))
	}
	for k, v := range ta {
		if w, ok := tb[k]; !ok || !bytes.Equal(v, w) {
			return fmt.Sprintf("extra table %q differs", k)
		}
	}
	if (a.Maxp == nil) != (b.Maxp == nil) {
		return fmt.Sprintf("maxp TTF info: want %v got %v", a.Maxp, b.Maxp)
	}
	if a.Maxp != nil && *a.Maxp != *b.Maxp {
		return fmt.Sprintf("maxp TTF info: want %+v got %+v", *a.Maxp, *b.Maxp)
	}
	return ""
}

func floatsClose(a, b []float64, tol float64) bool {
	if len(a) != len(b) {
		return false
	}
	for i := range a {
		if math.Abs(a[i]-b[i]) > tol {
			return false
		}
	}
	return true
}

// DiffCFFGlyph compares two CFF glyphs to 16.16 precision.
func DiffCFFGlyph(g, h *cff.Glyph) string {
	if g.Name != h.Name {
		return fmt.Sprintf("name want %q got %q", g.Name, h.Name)
	}
	if math.Abs(g.Width-h.Width) > eps16 {
		return fmt.Sprintf("width want %v got %v", g.Width, h.Width)
	}
	if len(g.Cmds) != len(h.Cmds) {
		return fmt.Sprintf("%d cmds, got %d: want %v got %v", len(g.Cmds), len(h.Cmds), g.Cmds, h.Cmds)
	}
	for k := range g.Cmds {
		if g.Cmds[k].Op != h.Cmds[k].Op || !floatsClose(g.Cmds[k].Args, h.Cmds[k].Args, eps16) {
			return fmt.Sprintf("cmd %d want %v got %v", k, g.Cmds[k], h.Cmds[k])
		}
	}
	if !floatsClose(g.HStem, h.HStem, eps16) {
		return fmt.Sprintf("hstem want %v got %v", g.HStem, h.HStem)
	}
	if !floatsClose(g.VStem, h.VStem, eps16) {
		return fmt.Sprintf("vstem want %v got %v", g.VStem, h.VStem)
	}
	return ""
}

// EncodingVector returns the 256-entry encoding of a simple CFF font
// (nil means the standard encoding).
func EncodingVector(o *cff.Outlines) []glyph.ID {
	if o.Encoding != nil {
		return o.Encoding
	}
	return cff.StandardEncoding(o.Glyphs)
}

// DiffCFF compares CFF outlines.
func DiffCFF(a, b *cff.Outlines) string {
	if len(a.Glyphs) != len(b.Glyphs) {
		return fmt.Sprintf("glyph count: want %d got %d", len(a.Glyphs), len(b.Glyphs))
	}
	for i := range a.Glyphs {
		if d := DiffCFFGlyph(a.Glyphs[i], b.Glyphs[i]); d != "" {
			return fmt.Sprintf("glyph %d: %s", i, d)
		}
	}
	if len(a.Private) != len(b.Private) {
		return fmt.Sprintf("private dict count: want %d got %d", len(a.Private), len(b.Private))
	}
	for i := range a.Private {
		p, q := a.Private[i], b.Private[i]
		if !reflect.DeepEqual(nz16(p.BlueValues), nz16(q.BlueValues)) || !reflect.DeepEqual(nz16(p.OtherBlues), nz16(q.OtherBlues)) ||
			!relClose(p.BlueScale, q.BlueScale, 1e-8) || p.BlueShift != q.BlueShift || p.BlueFuzz != q.BlueFuzz ||
			!relClose(p.StdHW, q.StdHW, 1e-8) || !relClose(p.StdVW, q.StdVW, 1e-8) || p.ForceBold != q.ForceBold {
			return fmt.Sprintf("private dict %d: want %+v got %+v", i, *p, *q)
		}
	}
	for i := range a.Glyphs {
		if x, y := a.FDSelect(glyph.ID(i)), b.FDSelect(glyph.ID(i)); x != y {
			return fmt.Sprintf("FDSelect(%d): want %d got %d", i, x, y)
		}
	}
	if a.IsCIDKeyed() != b.IsCIDKeyed() {
		return fmt.Sprintf("CID-keyed: want %v got %v", a.IsCIDKeyed(), b.IsCIDKeyed())
	}
	if a.IsCIDKeyed() {
		if *a.ROS != *b.ROS {
			return fmt.Sprintf("ROS: want %v got %v", *a.ROS, *b.ROS)
		}
		if len(a.GIDToCID) != len(b.GIDToCID) {
			return fmt.Sprintf("GIDToCID length: want %d got %d", len(a.GIDToCID), len(b.GIDToCID))
		}
		for i := range a.GIDToCID {
			if a.GIDToCID[i] != b.GIDToCID[i] {
				return fmt.Sprintf("GIDToCID[%d]: want %d got %d", i, a.GIDToCID[i], b.GIDToCID[i])
			}
		}
		if len(a.FontMatrices) != len(b.FontMatrices) {
			return fmt.Sprintf("FontMatrices length: want %d got %d", len(a.FontMatrices), len(b.FontMatrices))
		}
		for i := range a.FontMatrices {
			if !matClose(a.FontMatrices[i], b.FontMatrices[i]) {
				return fmt.Sprintf("FontMatrices[%d]: want %v got %v", i, a.FontMatrices[i], b.FontMatrices[i])
			}
		}
		if len(b.Encoding) != 0 {
			return "CID-keyed font came back with an Encoding"
		}
	} else {
		ea, eb := EncodingVector(a), EncodingVector(b)
		if len(ea) != 256 || len(eb) != 256 {
			return fmt.Sprintf("encoding length: want %d got %d", len(ea), len(eb))
		}
		for i := range ea {
			if ea[i] != eb[i] {
				return fmt.Sprintf("encoding[%d]: want %d got %d", i, ea[i], eb[i])
			}
		}
	}
	return ""
}

func nz16[T any](s []T) []T {
	if len(s) == 0 {
		return nil
	}
	return s
}

func diffCmap(a, b *sfnt.Font) string {
	if len(a.CMapTable) != len(b.CMapTable) {
		return fmt.Sprintf("cmap keys: want %d got %d", len(a.CMapTable), len(b.CMapTable))
	}
	for k, v := range a.CMapTable {
		w, ok := b.CMapTable[k]
		if !ok {
			return fmt.Sprintf("cmap key %v missing", k)
		}
		if !bytes.Equal(v, w) {
			return fmt.Sprintf("cmap subtable %v differs (%d vs %d bytes)", k, len(v), len(w))
		}
	}
	return ""
}

// DiffInfo compares GSUB/GPOS tables (nil ≡ nil; script list by tag string).
func DiffInfo(name string, a, b *gtab.Info) string {
	if (a == nil) != (b == nil) {
		return fmt.Sprintf("%s: want present=%v got present=%v", name, a != nil, b != nil)
	}
	if a == nil {
		return ""
	}
	sa, sb := map[string]*gtab.Features{}, map[string]*gtab.Features{}
	for k, v := range a.ScriptList {
		sa[k.String()] = v
	}
	for k, v := range b.ScriptList {
		sb[k.String()] = v
	}
	if d := DeepDiff(name+".ScriptList", sa, sb); d != "" {
		return d
	}
	if d := DeepDiff(name+".FeatureList", a.FeatureList, b.FeatureList); d != "" {
		return d
	}
	return DeepDiff(name+".LookupList", a.LookupList, b.LookupList)
}

// DeepDiff is reflect.DeepEqual with nil ≡ empty for slices and maps, and
// reports the path of the first difference.
func DeepDiff(path string, a, b any) string {
	return deep(path, reflect.ValueOf(a), reflect.ValueOf(b), 0)
}

func isEmptyish(v reflect.Value) bool {
	if !v.IsValid() {
		return true
	}
	switch v.Kind() {
	case reflect.Slice, reflect.Map:
		return v.Len() == 0
	case reflect.Ptr, reflect.Interface:
		return v.IsNil()
	}
	return false
}

func deep(path string, a, b reflect.Value, depth int) string {
	if depth > 200 {
		return path + ": too deep"
	}
	if !a.IsValid() || !b.IsValid() {
		if isEmptyish(a) && isEmptyish(b) {
			return ""
		}
		return fmt.Sprintf("%s: want valid=%v got valid=%v", path, a.IsValid(), b.IsValid())
	}
	if a.Type() != b.Type() {
		return fmt.Sprintf("%s: type want %s got %s", path, a.Type(), b.Type())
	}
	switch a.Kind() {
	case reflect.Ptr:
		if a.IsNil() || b.IsNil() {
			if a.IsNil() && b.IsNil() {
				return ""
			}
			// nil pointer vs pointer to zero value are different things
			return fmt.Sprintf("%s: nil pointer mismatch (want nil=%v got nil=%v)", path, a.IsNil(), b.IsNil())
		}
		return deep(path, a.Elem(), b.Elem(), depth+1)
	case reflect.Interface:
		if a.IsNil() || b.IsNil() {
			if a.IsNil() && b.IsNil() {
				return ""
			}
			return fmt.Sprintf("%s: nil interface mismatch", path)
		}
		return deep(path, a.Elem(), b.Elem(), depth+1)
	case reflect.Struct:
		for i := 0; i < a.NumField(); i++ {
			if d := deep(path+"."+a.Type().Field(i).Name, a.Field(i), b.Field(i), depth+1); d != "" {
				return d
			}
		}
		return ""
	case reflect.Slice, reflect.Array:
		if a.Len() != b.Len() {
			return fmt.Sprintf("%s: length want %d got %d", path, a.Len(), b.Len())
		}
		for i := 0; i < a.Len(); i++ {
			if d := deep(fmt.Sprintf("%s[%d]", path, i), a.Index(i), b.Index(i), depth+1); d != "" {
				return d
			}
		}
		return ""
	case reflect.Map:
		if a.Len() != b.Len() {
			return fmt.Sprintf("%s: map size want %d got %d", path, a.Len(), b.Len())
		}
		keys := a.MapKeys()
		sort.Slice(keys, func(i, j int) bool { return fmt.Sprint(keys[i]) < fmt.Sprint(keys[j]) })
		for _, k := range keys {
			bv := b.MapIndex(k)
			if !bv.IsValid() {
				return fmt.Sprintf("%s: key %v missing", path, k)
			}
			if d := deep(fmt.Sprintf("%s[%v]", path, k), a.MapIndex(k), bv, depth+1); d != "" {
				return d
			}
		}
		return ""
	case reflect.Float32, reflect.Float64:
		if a.Float() != b.Float() {
			return fmt.Sprintf("%s: want %v got %v", path, a.Float(), b.Float())
		}
		return ""
	case reflect.Func:
		return ""
	default:
		if a.CanInterface() && b.CanInterface() {
			if !reflect.DeepEqual(a.Interface(), b.Interface()) {
				return fmt.Sprintf("%s: want %v got %v", path, a.Interface(), b.Interface())
			}
			return ""
		}
		// unexported scalar fields
		var eq bool
		switch a.Kind() {
		case reflect.Bool:
			eq = a.Bool() == b.Bool()
		case reflect.Int, reflect.Int8, reflect.Int16, reflect.Int32, reflect.Int64:
			eq = a.Int() == b.Int()
		case reflect.Uint, reflect.Uint8, reflect.Uint16, reflect.Uint32, reflect.Uint64, reflect.Uintptr:
			eq = a.Uint() == b.Uint()
		case reflect.String:
			eq = a.String() == b.String()
		default:
			eq = true
		}
		if !eq {
			return fmt.Sprintf("%s: unexported field differs", path)
		}
		return ""
	}
}
