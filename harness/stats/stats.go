// Package stats collects the evidence counters of one check process and
// carries the known-findings list into the checks.
//
// Every evaluated case calls Case (or CaseIn for a named sub-check).  The
// package keeps the number of evaluations, label counts, the set of 64-bit
// fingerprints of non-trivial cases (so that "distinct non-trivial" is a
// measured number that can be merged across shards by set union) and the
// first few non-trivial cases rendered as strings.  Main flushes everything
// to the file named by VERIF_STATS_OUT when the test binary exits.
package stats

import (
	"bufio"
	"encoding/base64"
	"encoding/binary"
	"encoding/json"
	"fmt"
	"hash/fnv"
	"os"
	"sort"
	"strings"
	"sync"
	"testing"
)

const maxSamples = 6

type sub struct {
	Evaluations int64            `json:"evaluations"`
	Nontrivial  int64            `json:"nontrivial"`
	Labels      map[string]int64 `json:"labels"`
	Samples     []string         `json:"samples"`
	Exhaustive  bool             `json:"exhaustive,omitempty"`
	fps         map[uint64]struct{}
}

var (
	mu        sync.Mutex
	subs      = map[string]*sub{}
	knownHits = map[string]int64{}
	excluded  = map[string]int64{}
	notes     = map[string]string{}

	knownOnce sync.Once
	known     map[string]string // "<prop>/<key>" -> description
	fixedKeys map[string]string
)

func getSub(name string) *sub {
	s := subs[name]
	if s == nil {
		s = &sub{Labels: map[string]int64{}, fps: map[uint64]struct{}{}}
		subs[name] = s
	}
	return s
}

// Hash returns a 64-bit FNV-1a fingerprint of the given parts.
func Hash(parts ...any) uint64 {
	h := fnv.New64a()
	for _, p := range parts {
		switch v := p.(type) {
		case []byte:
			var l [8]byte
			binary.LittleEndian.PutUint64(l[:], uint64(len(v)))
			h.Write(l[:])
			h.Write(v)
		case string:
			var l [8]byte
			binary.LittleEndian.PutUint64(l[:], uint64(len(v)))
			h.Write(l[:])
			h.Write([]byte(v))
		default:
			fmt.Fprintf(h, "%v|", v)
		}
	}
	return h.Sum64()
}

// CaseIn records one evaluated case of the named sub-check.  fp is a
// fingerprint of the case, nontrivial says whether it meets the property's
// stated rule, sample renders the case for the evidence file (called only
// for the first few non-trivial cases), labels are class counters.
func CaseIn(name string, fp uint64, nontrivial bool, sample func() string, labels ...string) {
	mu.Lock()
	defer mu.Unlock()
	s := getSub(name)
	s.Evaluations++
	for _, l := range labels {
		if l != "" {
			s.Labels[l]++
		}
	}
	if !nontrivial {
		return
	}
	s.Nontrivial++
	if _, seen := s.fps[fp]; seen {
		return
	}
	s.fps[fp] = struct{}{}
	if len(s.Samples) < maxSamples && sample != nil {
		str := sample()
		if len(str) > 600 {
			str = str[:600] + "…"
		}
		s.Samples = append(s.Samples, str)
	}
}

// Case is CaseIn for the default sub-check "main".
func Case(fp uint64, nontrivial bool, sample func() string, labels ...string) {
	CaseIn("main", fp, nontrivial, sample, labels...)
}

// Label bumps a class counter without counting an evaluation.
func Label(name, label string) {
	mu.Lock()
	defer mu.Unlock()
	getSub(name).Labels[label]++
}

// LabelN adds n to a class counter.
func LabelN(name, label string, n int64) {
	mu.Lock()
	defer mu.Unlock()
	getSub(name).Labels[label] += n
}

// Exhaustive marks a sub-check as having enumerated its space completely.
func Exhaustive(name string) {
	mu.Lock()
	defer mu.Unlock()
	getSub(name).Exhaustive = true
}

// Note stores a free-text remark (calibration margins, sizes) in the evidence.
func Note(key, val string) {
	mu.Lock()
	defer mu.Unlock()
	notes[key] = val
}

// Excluded counts a generated case that was left out (or a failure that
// was matched) because it belongs to a listed known finding.
func Excluded(key string) {
	mu.Lock()
	defer mu.Unlock()
	excluded[key]++
}

func loadKnown() {
	known = map[string]string{}
	fixedKeys = map[string]string{}
	path := os.Getenv("VERIF_KNOWN")
	if path == "" {
		path = "/verif/known-findings.txt"
	}
	f, err := os.Open(path)
	if err != nil {
		return
	}
	defer f.Close()
	sc := bufio.NewScanner(f)
	sc.Buffer(make([]byte, 1<<20), 1<<20)
	for sc.Scan() {
		line := strings.TrimSpace(sc.Text())
		if !strings.HasPrefix(line, "finding:") {
			continue
		}
		var prop, key string
		rest := strings.Fields(strings.TrimPrefix(line, "finding:"))
		var desc []string
		for _, w := range rest {
			switch {
			case strings.HasPrefix(w, "property=") && prop == "":
				prop = strings.TrimPrefix(w, "property=")
			case strings.HasPrefix(w, "key=") && key == "":
				key = strings.TrimPrefix(w, "key=")
			case strings.HasPrefix(w, "repro=") && len(desc) == 0:
			default:
				desc = append(desc, w)
			}
		}
		if prop != "" && key != "" {
			known[prop+"/"+key] = strings.Join(desc, " ")
		}
	}
}

// Known reports whether (property, key) is a listed known finding.  If it
// is, the hit is counted so that the driver prints a KNOWN-FINDING line.
func Known(prop, key string) bool {
	knownOnce.Do(loadKnown)
	_, ok := known[prop+"/"+key]
	if ok {
		mu.Lock()
		knownHits[prop+"/"+key]++
		mu.Unlock()
	}
	return ok
}

// IsListed is Known without counting a hit (for generators that exclude a
// class by construction; they call Excluded themselves).
func IsListed(prop, key string) bool {
	knownOnce.Do(loadKnown)
	_, ok := known[prop+"/"+key]
	return ok
}

type out struct {
	Subs      map[string]*subOut `json:"subs"`
	KnownHits map[string]int64   `json:"known_hits"`
	Excluded  map[string]int64   `json:"excluded"`
	Notes     map[string]string  `json:"notes"`
}

type subOut struct {
	*sub
	Fps string `json:"fps"` // base64 of little-endian uint64s
}

// Flush writes the counters to $VERIF_STATS_OUT (no-op if unset).
func Flush() {
	dir := os.Getenv("VERIF_STATS_OUT")
	if dir == "" {
		return
	}
	os.MkdirAll(dir, 0o755)
	path := fmt.Sprintf("%s/%d.json", dir, os.Getpid())
	mu.Lock()
	defer mu.Unlock()
	o := out{Subs: map[string]*subOut{}, KnownHits: knownHits, Excluded: excluded, Notes: notes}
	for name, s := range subs {
		keys := make([]uint64, 0, len(s.fps))
		for k := range s.fps {
			keys = append(keys, k)
		}
		sort.Slice(keys, func(i, j int) bool { return keys[i] < keys[j] })
		raw := make([]byte, 8*len(keys))
		for i, k := range keys {
			binary.LittleEndian.PutUint64(raw[8*i:], k)
		}
		o.Subs[name] = &subOut{sub: s, Fps: base64.StdEncoding.EncodeToString(raw)}
	}
	data, err := json.Marshal(o)
	if err != nil {
		fmt.Fprintln(os.Stderr, "stats: marshal:", err)
		return
	}
	tmp := path + ".tmp"
	if err := os.WriteFile(tmp, data, 0o644); err != nil {
		fmt.Fprintln(os.Stderr, "stats: write:", err)
		return
	}
	os.Rename(tmp, path)
}

// Main runs the tests and flushes the counters.  Use from TestMain.
func Main(m *testing.M) int {
	code := m.Run()
	Flush()
	return code
}

// Tier returns "quick" or "thorough" (from VERIF_TIER; default quick).
func Tier() string {
	if os.Getenv("VERIF_TIER") == "thorough" {
		return "thorough"
	}
	return "quick"
}

// Thorough reports whether the thorough tier is running.
func Thorough() bool { return Tier() == "thorough" }

// SaveReplay writes a replay artefact into $VERIF_REPLAY_OUT and returns
// its path ("" if the directory is not configured).
func SaveReplay(name string, data []byte) string {
	dir := os.Getenv("VERIF_REPLAY_OUT")
	if dir == "" {
		return ""
	}
	os.MkdirAll(dir, 0o755)
	p := dir + "/" + name
	if err := os.WriteFile(p, data, 0o644); err != nil {
		return ""
	}
	return p
}

// MainExit is Main followed by os.Exit.
func MainExit(m *testing.M) { os.Exit(Main(m)) }
