#!/bin/bash
# seedrun.sh <seed-id> [check args...]  - apply seeded/<seed-id>/patch.diff to a scratch
# worktree of /repo and run ./check <prop> there (VERIF_REPO), then remove the worktree.
# Extra args go to ./check (e.g. --tier thorough --only TestC02Cmap); PROP=Cxx overrides the property.
set -u
home=${VERIF_HOME:-/verif}
sid=$1; shift
prop=${PROP:-${sid%%-*}}
wt=/tmp/sr-$sid-$$
git -C /repo worktree add -q --detach $wt HEAD || exit 2
( cd $wt && git apply $home/seeded/$sid/patch.diff ) || { echo "patch does not apply"; git -C /repo worktree remove --force $wt; exit 3; }
export GOFLAGS=-mod=mod GOPROXY=off GOSUMDB=off GOTOOLCHAIN=local
( cd $home && VERIF_REPO=$wt ./check $prop "$@" )
rc=$?
git -C /repo worktree remove --force $wt; rm -rf $wt; git -C /repo worktree prune
echo "seedrun $sid rc=$rc"
exit $rc
