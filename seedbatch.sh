#!/bin/bash
# seedbatch.sh <SID>...  - confirm and evaluate freshly delivered seeded changes (/tmp/seedout/<SID>/) one after another
cd /verif
for sid in "$@"; do
  prop=${sid%%-*}
  extra=""
  [ "$prop" = "C16" ] && extra="--race"
  python3 seedeval.py $sid $prop /tmp/seedout/$sid $extra 2>&1 | tail -3
done
