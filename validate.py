#!/opt/veriftools/pyvenv/bin/python
import json, jsonschema, glob, sys
jsonschema.validate(json.load(open('/verif/MANIFEST.json')), json.load(open('/root/.vp/MANIFEST.schema.json')))
es = json.load(open('/root/.vp/EVIDENCE.schema.json'))
claimed = set(open('/verif/claimed.txt').read().split())
for f in sorted(glob.glob('/verif/evidence/*.json')):
    if f.split('/')[-1][:-5] not in claimed:
        continue
    jsonschema.validate(json.load(open(f)), es)
print('manifest + %d evidence files valid' % len(glob.glob('/verif/evidence/*.json')))
