#!/usr/bin/env python3
"""Regenerates MANIFEST.json from props.d/*.json (claimed checks) and
properties.jsonl (everything else goes to not_applicable with a reason from
not_applicable.json)."""
import json, os, sys
V = os.path.dirname(os.path.abspath(__file__))
sys.path.insert(0, V)
from props import PROPS
ids = [json.loads(l)["id"] for l in open(os.path.join(V, "properties.jsonl")) if l.strip()]
na_reasons = {}
p = os.path.join(V, "not_applicable.json")
if os.path.exists(p):
    na_reasons = json.load(open(p))
claimed = set(open(os.path.join(V, "claimed.txt")).read().split())
checks, na = [], []
for i in ids:
    c = PROPS.get(i)
    if c is None or c.get("disabled") or i not in claimed:
        na.append(dict(property_id=i, reason=na_reasons.get(i, "check not built yet in this round; see DESIGN.md section 4 for the planned generator and oracle")))
        continue
    m = c.get("manifest", {})
    checks.append(dict(
        property_id=i,
        quick_cmd="./check %s --tier quick" % i,
        thorough_cmd="./check %s --tier thorough" % i,
        evidence_file="/verif/evidence/%s.json" % i,
        replay_cmd_template="./check %s --replay {path}" % i,
        engine="go-rapid-harness",
        level_claimed=dict(category=c.get("level", "exploration"),
                           text=m.get("text", "generated-input search against an explicit oracle; a green run means no counterexample among the generated cases of the stated classes"),
                           design_ref=m.get("design_ref", "DESIGN.md section 4, " + i)),
        level_note=m.get("level_note", "trusts the harness's reference model and generators; exploration, not proof"),
        technique=m.get("technique", "property-based testing (pgregory.net/rapid) against a reference model"),
    ))
man = dict(
    version=1,
    setup_cmd="cd /verif && ./setup.sh",
    hooks=dict(guard="verif", enable="go test -tags verif (no hook sources exist: every observation point is public API)",
               baseline_off_cmd="cd /repo && go test -vet=off -count=1 ./...",
               source_commits=[], add_only=True),
    engines=[dict(name="go-rapid-harness", path="/verif/harness",
                  serves_properties=[c["property_id"] for c in checks],
                  kind_free_text="Go test packages using pgregory.net/rapid v1.3.0 generators, harness-written reference models, golang.org/x/image/font/sfnt as a second implementation, and native go fuzzing in the thorough tier; driven by /verif/check")],
    checks=checks,
    notes="See DESIGN.md. exit 2 from a check means inconclusive (time budget / worker death), never a violation.",
    not_applicable=na,
)
json.dump(man, open(os.path.join(V, "MANIFEST.json"), "w"), indent=1)
print("claimed:", [c["property_id"] for c in checks])
