"""Per-property run plans for ./check, one JSON file per property in props.d/.

Each file: pkg (directory under harness/checks), level, rule, assumptions,
optional race/mem_gib/par_quick/par_thorough, manifest (level text, level_note,
technique, design_ref) and tests: a list of
  {name, kind: rapid|plain|fuzz, quick, thorough (cases per shard),
   shards_quick, shards_thorough, steps (rapid Repeat), seconds_thorough (fuzz),
   timeout_quick/timeout_thorough (s), thorough_only, env}
"""
import glob, json, os

PROPS = {}
for _f in sorted(glob.glob(os.path.join(os.path.dirname(os.path.abspath(__file__)), "props.d", "*.json"))):
    try:
        PROPS[os.path.basename(_f)[:-5]] = json.load(open(_f))
    except Exception as _e:  # a plan being edited must not break the other checks
        import sys
        print("props: skipping %s: %s" % (_f, _e), file=sys.stderr)
