#!/bin/bash
# runall.sh [tier] - runs every claimed check once (sequentially) against /repo and prints one line each
tier=${1:-quick}
export GOFLAGS=-mod=mod GOPROXY=off GOSUMDB=off GOTOOLCHAIN=local
cd "$(dirname "$0")"
for p in $(cat claimed.txt); do
  out=$(./check $p --tier $tier 2>&1); rc=$?
  echo "$p rc=$rc $(echo "$out" | grep -a '^property=' | tail -1)"
  if [ $rc -ne 0 ]; then echo "$out" | grep -a "VIOLATION\|INCONCL\|KNOWN" | head -5; fi
done
